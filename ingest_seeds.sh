#!/bin/bash
# ingest_seeds.sh <worktree-prefix> <nA> <nB> [props...] : copy the deliverables of the seeding agents
# (<prefix>_<prop>/out/A, out/B) to seeded/<prop>_m<nA>, _m<nB> and confirm each in a scratch worktree
cd /verif
pre=$1; nA=$2; nB=$3; shift 3
props=${@:-$(seq -f "C%02g" 1 20)}
for p in $props; do
  for ab in A:$nA B:$nB; do
    l=${ab%%:*}; n=${ab##*:}
    src=${pre}_$p/out/$l
    [ -f $src/patch.diff ] || { echo "RESULT ${p}_m$n missing"; continue; }
    dst=seeded/${p}_m$n
    [ -d $dst ] && { echo "RESULT ${p}_m$n already-ingested"; continue; }
    mkdir -p $dst && cp $src/patch.diff $src/demo_test.go $src/meta.json $dst/
    ./confirm_seed.sh $dst 2>&1 | grep RESULT
  done
done
