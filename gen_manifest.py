#!/usr/bin/env python3
# writes MANIFEST.json (one check per property; all decided by symgo)
import json
props=[json.loads(l) for l in open('/verif/properties.jsonl')]
scenes={
 "C01":"end-of-block batch start and batch expiry, respond, withdraw, context update, zero-height preparation: escrow balance delta = delta of (pending fees + earnings) at every step; batch start with a price in a second token (host token keeper + oracle module service: concrete rates, error answers, no oracle)",
 "C02":"batch start (debit = sum of fees issued), respond (tax = floor(fee x rate), earnings = fee - tax, or whole fee back on malformed output), expiry (whole fee back), marker removed so no second settlement; batch start with a price in a second token (host token keeper + oracle module service: concrete rates, error answers, no oracle)",
 "C03":"bind / update / enable / disable / refund through the handler, slash at expiry and on malformed output: deposit account delta = delta of recorded deposits, owner debited the same, refund iff unavailable, non-zero and due (block time symbolic around the refundable instant), burn lowers supply; zero-height preparation leaves deposits in custody",
 "C04":"slash contract at both call sites (amount = floor(deposit x fraction), burn, auto-disable with block time), and no deposit change on any other path",
 "C05":"every message type with the signer symbolic and unequal to the rightful party; module-owned contexts; balances of non-signers",
 "C06":"batch start with <=2 listed providers each bound/unbound, available or not, any QoS, price and cap, any threshold and consumer balance: requests = exactly the eligible set, skip / pause decisions, fee <= cap; batch start with a price in a second token (host token keeper + oracle module service: concrete rates, error answers, no oracle)",
 "C07":"discount selectors against a reference scanning the other way (all block times and volumes relative to windows / thresholds), fee = max(1, trunc(base x dT x dV)) <= max(base,1), recorded fee and debit = reference price, volume +1 per accepted response; batch start with a price in a second token (host token keeper + oracle module service: concrete rates, error answers, no oracle)",
 "C08":"respond accepted iff known request, designated provider, still pending (any context state); expiry height fixed at issue; nothing pending after the expiry block; context messages leave requests alone",
 "C09":"pause / start / kill / update / call / batch start / expiry / respond: guards of each transition, immutable fields, counter moves only at issue or skip and only when running, completed is final",
 "C10":"first batch queued at the call height; next batch at expiry - timeout + frequency >= expiry; counter against the largest total ever in force (ghost), one-shot single batch; start and update preserve it",
 "C11":"queue invariant (exactly one pending event for a running context, none in the past, pointer and queue entry agree) after every message and both end-of-block handlers; batch start with a price in a second token (host token keeper + oracle module service: concrete rates, error answers, no oracle)",
 "C12":"request / response counts, completion exactly when all answered or at expiry, callbacks of another module: once per batch, outputs = non-empty outputs, error iff below threshold, state callback on pause for funds",
 "C13":"withdraw by owner / by provider / by a stranger with two owners and three providers, withdrawal address set or not: payout, reset records, owner total = sum of its providers; earn on respond; set-withdraw-address",
 "C14":"available => deposit >= max(min-deposit param, price x multiple) after bind / update (price or deposit) / enable / disable / refund / slash; rejections",
 "C15":"definitions unique and unchanged, binding identity, one owner per provider, owner indexes, stored pricing = parse(published text), Validate() of stored records, by-service / by-owner listings exact for names that extend each other",
 "C16":"after the expiry block no request / response / marker of the batch; context removed exactly when finished; records of other batches untouched",
 "C17":"all 13 gRPC queries and their legacy (amino JSON) counterparts against the records installed, with existing and fresh arguments; request reconstruction field by field",
 "C18":"ID codecs: fixed length, round trip, injectivity for all 64/16-bit values and 40/32-byte hashes; key builders injective and every prefix scan exact (names of length 1-2 incl. prefixes of each other, 20-byte addresses; the earnings scans over address pairs of 1-3 bytes where one begins with the other); IDs assigned at issue and at call",
 "C19":"zero-height preparation (refund of pending fees and earnings, escrow emptied, contexts paused), ValidateGenesis(Export) = nil, Init into a fresh chain and Export again equal, pricing and ownership indexes rebuilt; enum JSON forms round trip",
 "C20":"no panic in EndBlocker (batch start, expiry with slashing) and in the handler for every message accepted by ValidateBasic (all 14 types, incl. empty deposit lists); determinism by self-composition of EndBlocker with independent map iteration orders; SDK 255/315-bit range checks modelled for amounts a message can carry (incl. decimal price texts of any length); module-service calls",
}
checks=[]
for p in props:
    i=p['id']
    checks.append({
     "property_id":i,
     "quick_cmd":f"./vcheck {i} quick",
     "thorough_cmd":f"./vcheck {i} thorough",
     "evidence_file":f"/verif/evidence/{i}.json",
     "replay_cmd_template":"./vcheck --replay {path}",
     "engine":"symgo",
     "technique":"bounded symbolic execution of the real Go code (go/ssa -> SMT, z3 with z3-5.1/cvc5 fallback), one-step induction from symbolic invariant-satisfying states; counterexamples and witnesses replayed natively",
     "level_claimed":{"category":"model_checking",
        "text":"Every assertion of the harnesses holds for every value of the symbolic inputs within the stated bounds (solver verdict unsat on each obligation of each feasible path; unknown/timeout/unwinding limits are reported as inconclusive, never as success). Covered: "+scenes[i]+". Not a proof: bounded record counts and list lengths, stub contracts at the SDK boundary.",
        "design_ref":"DESIGN.md sections 3-7, 14, 16, 18, 19"},
     "level_note":"trusted base: the symgo encoder, the stub contracts of DESIGN.md section 4 (KV store, codec round trip, bank, params, sdk.Int/Dec as exact integers, bech32 as an injective NUL-free encoding, time as integer nanoseconds, pricing JSON as a structured value), z3 4.8.12 / z3 5.1.0 / cvc5; kept honest by native replay of a witness path of every harness and of every counterexample against simapp + the real keeper, store, codec and bank. State builders generate the invariant-satisfying pre-states of DESIGN.md section 5 within the bounds of section 6/14.",
    })
m={"version":1,
 "setup_cmd":"./setup.sh",
 "hooks":{"guard":"verif","enable":"no hooks: harnesses live in /verif/harness (own Go module with replace github.com/irismod/service => /repo); /repo is loaded from its working tree by go/packages on every run, nothing in /repo is built with a tag","baseline_off_cmd":"cd /repo && go test -vet=off -count=1 ./...","source_commits":[],"add_only":True},
 "engines":[{"name":"symgo","path":"/verif/symgo","serves_properties":[p['id'] for p in props],"kind_free_text":"bounded symbolic executor for go/ssa of the real module code -> SMT-LIB2 (z3 4.8.12 primary; z3 5.1.0 and cvc5 as fallback on unknown), path exploration by re-execution with decision prefixes on 16 workers, native replay of counterexamples and witnesses"}],
 "checks":checks,
 "notes":"Genuine defects found and repaired with fix: commits in /repo (F1-F21, F6 included; no open known finding) are listed in /verif/known_findings.json and DESIGN.md sections 8, 16, 18, 19. Exit codes: 0 held, 1 VIOLATION (reproduced natively), 2 inconclusive (never success).",
 "not_applicable":[]}
json.dump(m,open('/verif/MANIFEST.json','w'),indent=1)
print("ok",len(checks))
