#!/bin/bash
# refrun_ov.sh <refactor-id> <prop> [prop...] : apply a behaviour-preserving refactoring as a source overlay and run the
# quick checks of the given properties; every one must exit 0 (no VIOLATION, no INCONCLUSIVE)
cd "$(dirname "$0")"
export GOFLAGS=-mod=mod GOPROXY=off GOSUMDB=off GOTOOLCHAIN=local
[ -x bin/symgo ] || { mkdir -p bin out evidence; (cd symgo && go build -o ../bin/symgo .) || exit 2; }
id=$1; shift
wt=/tmp/wtrf_${id}_$$
git -C /repo worktree add -q $wt HEAD || exit 2
if ! git -C $wt apply $PWD/refactors/$id/patch.diff; then echo "REFACTOR $id patch does not apply"; git -C /repo worktree remove --force $wt; exit 0; fi
ov=""
for f in $(git -C $wt status --porcelain | awk '{print $2}' | grep '\.go$'); do ov="$ov,/repo/$f=$wt/$f"; done
ov=${ov#,}
bad=""
for p in "$@"; do
  out=$(timeout 1500 bin/symgo -verif "$PWD" -prop $p -tier quick -noevidence -overlay "$ov" 2>&1); rc=$?
  if [ $rc -ne 0 ]; then bad="$bad $p(exit=$rc)"; echo "$out" | grep -E "VIOLATION|INCONCLUSIVE|harness=" | head -4 | sed "s/^/   $id $p: /"; fi
done
git -C /repo worktree remove --force $wt
echo "REFACTOR $id checked:$* alarms:${bad:- none}"
