package main

import (
	"fmt"
	"go/constant"
	"go/token"
	"go/types"
	"strings"

	"golang.org/x/tools/go/ssa"
)

type pathEnd struct{ why string } // path abandoned (assumption false / infeasible)
type goPanic struct{ v Value }    // modelled Go panic
type abort struct{ why string }   // engine cannot continue: inconclusive

func (p goPanic) String() string {
	switch x := p.v.(type) {
	case string:
		return x
	case StrVal:
		if s, ok := concreteString(x); ok {
			return s
		}
	case IfaceVal:
		if s, ok := x.V.(StrVal); ok {
			if c, ok := concreteString(s); ok {
				return c
			}
		}
		if m, ok := x.V.(ModelVal); ok {
			return m.Kind + ":" + m.Tag
		}
	}
	return fmt.Sprintf("%T", p.v)
}

type Violation struct {
	Harness string            `json:"harness"`
	Clause  string            `json:"clause"`
	Finding string            `json:"finding,omitempty"` // known-finding id when inside a listed region
	Model   map[string]string `json:"inputs"`
	Trace   []int             `json:"trace"`
	Choices map[string]int    `json:"choices"`
}

type Exec struct {
	invokeSig *types.Signature // signature of the interface method a model method is answering
	panicAt string // call stack of the last modelled range-check panic
	prog    *ssa.Program
	tt      *TermTable
	solver  *Solver
	globals map[*ssa.Global]*Cell
	lenient bool
	env     *EnvModel
	stack   []string
	choices map[string]int
	cfg     *RunCfg

	// per path
	pc        []*Term
	pcSet     map[*Term]bool
	prefix    []int
	trace     []int
	pending   [][]int
	inputs    []*Term
	inSeen    map[string]bool
	steps     int
	harness   string
	nondetSeq int

	// results
	violations []Violation
	st         *Stats
}

func (e *Exec) addPC(c *Term) {
	e.pc = append(e.pc, c)
	e.notePC(c)
}

func (e *Exec) notePC(c *Term) {
	if e.pcSet[c] {
		return
	}
	e.pcSet[c] = true
	if c.Op == "and" {
		e.notePC(c.Args[0])
		e.notePC(c.Args[1])
	}
}

// known returns (value, true) if c is syntactically decided by the path condition.
func (e *Exec) known(c *Term) (bool, bool) {
	if c.IsConst() {
		return c.U != 0, true
	}
	if e.pcSet[c] {
		return true, true
	}
	if e.pcSet[e.tt.Not(c)] {
		return false, true
	}
	if c.Op == "and" {
		a, oka := e.known(c.Args[0])
		b, okb := e.known(c.Args[1])
		if oka && okb {
			return a && b, true
		}
		if (oka && !a) || (okb && !b) {
			return false, true
		}
	}
	if c.Op == "not" {
		v, ok := e.known(c.Args[0])
		if ok {
			return !v, true
		}
	}
	return false, false
}

func (e *Exec) pcSat(extra *Term) bool {
	if v, ok := e.known(extra); ok {
		return v
	}
	roots := append(e.slicePC(extra), extra)
	r, _ := e.solver.Check(roots, nil)
	e.st.Queries++
	switch r {
	case "sat":
		return true
	case "unsat":
		return false
	}
	if strings.HasPrefix(r, "error") {
		panic(abort{"solver " + r})
	}
	// unknown: keep the side (sound for exploration), remember it
	e.st.Unknown++
	return true
}

// slice returns the conjuncts of the path condition that share variables (transitively) with q.
// The rest of the path condition is satisfiable on its own (the path is feasible) and independent of q.
func (e *Exec) slicePC(q *Term) []*Term {
	seed := map[int]bool{}
	for _, v := range e.tt.Vars(q) {
		seed[v] = true
	}
	taken := make([]bool, len(e.pc))
	var out []*Term
	for changed := true; changed; {
		changed = false
		for i, c := range e.pc {
			if taken[i] {
				continue
			}
			vs := e.tt.Vars(c)
			hit := false
			for _, v := range vs {
				if seed[v] {
					hit = true
					break
				}
			}
			if hit {
				taken[i] = true
				out = append(out, c)
				for _, v := range vs {
					if !seed[v] {
						seed[v] = true
						changed = true
					}
				}
			}
		}
	}
	return out
}

// decide makes an n-way decision; constraint(i) gives the constraint of option i.
func (e *Exec) decide(n int, constraint func(i int) *Term) int {
	// package initialisers run once per term table, outside any path: a choice made there (the order of a map
	// range) is not a decision of the path - recording it would shift the decision prefixes of every later path,
	// which start from the snapshot taken after initialisation. The first option is taken.
	if e.lenient {
		return 0
	}
	pos := len(e.trace)
	if pos < len(e.prefix) {
		d := e.prefix[pos]
		e.trace = append(e.trace, d)
		e.addPC(constraint(d))
		return d
	}
	var feas []int
	for i := 0; i < n; i++ {
		c := constraint(i)
		if v, ok := e.known(c); ok {
			if v {
				feas = append(feas, i)
			}
			continue
		}
		// last option and none feasible so far: must be feasible (pc is sat and options are exhaustive)
		if i == n-1 && len(feas) == 0 && e.cfg.exhaustiveLast {
			feas = append(feas, i)
			continue
		}
		if e.pcSat(c) {
			feas = append(feas, i)
		}
	}
	if len(feas) == 0 {
		panic(pathEnd{"no feasible option"})
	}
	if len(feas) > 1 && len(e.stack) > 0 {
		e.st.Forks[e.stack[len(e.stack)-1]] += len(feas) - 1
	}
	for _, alt := range feas[1:] {
		p := append(append([]int{}, e.trace...), alt)
		e.pending = append(e.pending, p)
	}
	d := feas[0]
	e.trace = append(e.trace, d)
	e.addPC(constraint(d))
	return d
}

func (e *Exec) branch(c *Term) bool {
	if v, ok := e.known(c); ok {
		return v
	}
	nc := e.tt.Not(c)
	pos := len(e.trace)
	if pos < len(e.prefix) {
		d := e.prefix[pos]
		e.trace = append(e.trace, d)
		if d == 1 {
			e.addPC(c)
		} else {
			e.addPC(nc)
		}
		return d == 1
	}
	// new decision: false side first (0), true side (1)
	f0 := e.pcSat(nc)
	f1 := true
	if f0 {
		f1 = e.pcSat(c)
	}
	switch {
	case f0 && f1:
		if len(e.stack) > 0 {
			e.st.Forks[e.stack[len(e.stack)-1]]++
		}
		e.pending = append(e.pending, append(append([]int{}, e.trace...), 1))
		e.trace = append(e.trace, 0)
		e.addPC(nc)
		return false
	case f0:
		e.trace = append(e.trace, 0)
		e.addPC(nc)
		return false
	default:
		e.trace = append(e.trace, 1)
		e.addPC(c)
		return true
	}
}

// concretize an integer term to a value in [0,n); returns -1 for "out of range".
func (e *Exec) concretize(t *Term, n int) int {
	if t.IsConst() {
		v := signed(t.U, t.Sort.Bits())
		if v < 0 || v >= int64(n) {
			return -1
		}
		return int(v)
	}
	if n > 64 {
		// the term's own range may be small (a count of matching bytes, a masked value)
		if _, hi := e.tt.urange(t); hi < 64 {
			n = int(hi) + 1
		} else {
			panic(abort{"symbolic index over a large range"})
		}
	}
	bits := t.Sort.Bits()
	d := e.decide(n+1, func(i int) *Term {
		if i == n {
			return e.tt.Not(e.tt.BVCmp("bvult", t, e.tt.BV(bits, uint64(n))))
		}
		return e.tt.Eq(t, e.tt.BV(bits, uint64(i)))
	})
	if d == n {
		return -1
	}
	return d
}

type frame struct {
	fn     *ssa.Function
	env    map[ssa.Value]Value
	defers []func()
}

func (e *Exec) get(fr *frame, v ssa.Value) Value {
	switch x := v.(type) {
	case *ssa.Const:
		return e.constVal(x)
	case *ssa.Global:
		return PtrVal{Root: e.globalCell(x)}
	case *ssa.Function:
		return &ClosureVal{Fn: x}
	case *ssa.Builtin:
		return x
	}
	val, ok := fr.env[v]
	if !ok {
		panic(abort{fmt.Sprintf("unbound ssa value %s in %s", v.Name(), fr.fn)})
	}
	return val
}

func (e *Exec) globalCell(g *ssa.Global) *Cell {
	c, ok := e.globals[g]
	if !ok {
		c = &Cell{V: e.zero(g.Type().(*types.Pointer).Elem())}
		e.globals[g] = c
	}
	return c
}

func (e *Exec) constVal(c *ssa.Const) Value {
	t := c.Type()
	if c.Value == nil {
		return e.zero(t)
	}
	switch u := t.Underlying().(type) {
	case *types.Basic:
		switch {
		case u.Info()&types.IsBoolean != 0:
			return e.tt.Bool(constant.BoolVal(c.Value))
		case u.Info()&types.IsInteger != 0:
			bits := intBits(u)
			if i, ok := constant.Int64Val(constant.ToInt(c.Value)); ok {
				return e.tt.BV(bits, uint64(i))
			}
			ui, _ := constant.Uint64Val(constant.ToInt(c.Value))
			return e.tt.BV(bits, ui)
		case u.Info()&types.IsString != 0:
			return e.constStr(constant.StringVal(c.Value))
		case u.Info()&types.IsFloat != 0:
			f, _ := constant.Float64Val(c.Value)
			return FloatVal(f)
		}
	}
	panic(abort{fmt.Sprintf("const %v of type %v", c, t)})
}

// FloatVal: concrete floats only (never symbolic)
type FloatVal float64

// Call runs a function to completion and returns its result (single or tuple).
func (e *Exec) Call(fn *ssa.Function, args []Value, free []Value) Value {
	name := fn.String()
	if in, ok := intrinsics[name]; ok {
		e.st.Stubs[name]++
		return in(e, fn, args)
	}
	isInit := strings.HasPrefix(fn.Name(), "init") && fn.Pkg != nil && fn.Signature.Recv() == nil && fn.Signature.Params().Len() == 0 && fn.Parent() == nil
	if isInit && !initAllowed[fn.Pkg.Pkg.Path()] {
		return nil
	}
	if strings.HasPrefix(name, "vh/vf.") {
		panic(abort{"unhandled vf function " + name})
	}
	if fn.Blocks == nil {
		if e.lenient {
			return e.zeroResult(fn.Signature)
		}
		panic(abort{"no body / unmodelled: " + name})
	}
	if isInit {
	} else if e.lenient && !ownPkg(fn) && !lenientAllowed[name] {
		return e.zeroResult(fn.Signature)
	}
	if !e.lenient && !execAllowed(fn) {
		panic(abort{"unmodelled callee outside the executed packages: " + name + " <- " + strings.Join(e.stack[max(0, len(e.stack)-3):], " <- ")})
	}
	e.st.Funcs[name]++
	e.stack = append(e.stack, name)
	if len(e.stack) > 200 {
		panic(abort{"call depth exceeded (unwinding assertion)"})
	}
	defer func() { e.stack = e.stack[:len(e.stack)-1] }()
	fr := &frame{fn: fn, env: make(map[ssa.Value]Value, 16)}
	for i, p := range fn.Params {
		fr.env[p] = args[i]
	}
	for i, fv := range fn.FreeVars {
		fr.env[fv] = free[i]
	}
	var ret Value
	func() {
		defer func() {
			// run defers on panic too
			if r := recover(); r != nil {
				switch r.(type) {
				case abort, pathEnd, goPanic:
				default:
					r = abort{fmt.Sprintf("engine: %v at %v", r, strings.Join(e.stack[max(0, len(e.stack)-4):], " <- "))}
				}
				if _, isGo := r.(goPanic); isGo {
					for i := len(fr.defers) - 1; i >= 0; i-- {
						fr.defers[i]()
					}
					fr.defers = nil
				}
				panic(r)
			}
		}()
		ret = e.run(fr)
	}()
	return ret
}

var initAllowed = map[string]bool{
	"github.com/irismod/service/types":   true,
	"github.com/irismod/service/keeper":  true,
	"github.com/irismod/service":         true,
	"github.com/cosmos/cosmos-sdk/types": true,
	"vh/h":                               true,
}

// functions of other packages that may run while package initialisers execute
var lenientAllowed = map[string]bool{}

// packages whose functions are executed from SSA (everything else must be an intrinsic)
var execPkgs = []string{
	"github.com/irismod/service",
	"vh/",
	"github.com/cosmos/cosmos-sdk/types",
	"github.com/gogo/protobuf/types",
	"github.com/tendermint/tendermint/libs/bytes",
	"github.com/tendermint/tendermint/abci/types",
	"encoding/binary",
	"bytes",
	"strings",
	"sort",
	"unicode/utf8",
	"unicode",
	"math/bits",
	"strconv",
	"errors",
}

func fnPkgPath(fn *ssa.Function) string {
	p := fn.Pkg
	for f := fn; p == nil && f.Parent() != nil; {
		f = f.Parent()
		p = f.Pkg
	}
	if p == nil {
		if fn.Signature.Recv() != nil {
			t := fn.Signature.Recv().Type()
			if pt, ok := t.(*types.Pointer); ok {
				t = pt.Elem()
			}
			if n, ok := t.(*types.Named); ok && n.Obj().Pkg() != nil {
				return n.Obj().Pkg().Path()
			}
		}
		return ""
	}
	return p.Pkg.Path()
}

func execAllowed(fn *ssa.Function) bool {
	path := fnPkgPath(fn)
	if path == "" {
		return true // synthetic wrappers / bound methods
	}
	for _, p := range execPkgs {
		if path == p || strings.HasPrefix(path, p) {
			return true
		}
	}
	return false
}

func ownPkg(fn *ssa.Function) bool {
	path := fnPkgPath(fn)
	return strings.HasPrefix(path, "github.com/irismod/service") || strings.HasPrefix(path, "vh/")
}

func (e *Exec) zeroResult(sig *types.Signature) Value {
	switch sig.Results().Len() {
	case 0:
		return nil
	case 1:
		return e.zero(sig.Results().At(0).Type())
	}
	return e.zero(sig.Results())
}

func (e *Exec) run(fr *frame) Value {
	blk := fr.fn.Blocks[0]
	var prev *ssa.BasicBlock
	for {
		var next *ssa.BasicBlock
		// phis are evaluated in parallel
		nphi := 0
		for _, ins := range blk.Instrs {
			if _, ok := ins.(*ssa.Phi); ok {
				nphi++
			} else {
				break
			}
		}
		if nphi > 0 {
			vals := make([]Value, nphi)
			for k := 0; k < nphi; k++ {
				in := blk.Instrs[k].(*ssa.Phi)
				for i, p := range blk.Preds {
					if p == prev {
						vals[k] = e.get(fr, in.Edges[i])
						break
					}
				}
			}
			for k := 0; k < nphi; k++ {
				fr.env[blk.Instrs[k].(*ssa.Phi)] = vals[k]
			}
		}
		for _, ins := range blk.Instrs[nphi:] {
			e.steps++
			if e.steps > e.cfg.StepBudget {
				panic(abort{"step budget exceeded (unwinding assertion)"})
			}
			switch in := ins.(type) {
			case *ssa.Jump:
				next = blk.Succs[0]
			case *ssa.If:
				c := e.get(fr, in.Cond).(*Term)
				if e.branch(c) {
					next = blk.Succs[0]
				} else {
					next = blk.Succs[1]
				}
			case *ssa.Return:
				for i := len(fr.defers) - 1; i >= 0; i-- {
					fr.defers[i]()
				}
				fr.defers = nil
				switch len(in.Results) {
				case 0:
					return nil
				case 1:
					return e.get(fr, in.Results[0])
				}
				tv := make(TupleVal, len(in.Results))
				for i, r := range in.Results {
					tv[i] = e.get(fr, r)
				}
				return tv
			case *ssa.RunDefers:
				for i := len(fr.defers) - 1; i >= 0; i-- {
					fr.defers[i]()
				}
				fr.defers = nil
			case *ssa.Panic:
				e.panicAt = strings.Join(e.stack[max(0, len(e.stack)-5):], " <- ")
				panic(goPanic{e.get(fr, in.X)})
			case *ssa.Store:
				p := e.get(fr, in.Addr).(PtrVal)
				if p.Root == nil {
					panic(goPanic{"nil pointer store"})
				}
				p.store(e.get(fr, in.Val))
			case *ssa.MapUpdate:
				e.mapUpdate(e.get(fr, in.Map), e.get(fr, in.Key), e.get(fr, in.Value))
			case *ssa.Defer:
				cc := in.Call
				f := e.prepareCall(fr, &cc)
				fr.defers = append(fr.defers, func() { f() })
			case *ssa.DebugRef:
			case *ssa.Go:
				panic(abort{"goroutine started in " + fr.fn.String()})
			case ssa.Value:
				fr.env[in] = e.eval(fr, in)
			default:
				panic(abort{fmt.Sprintf("instr %T", ins)})
			}
			if next != nil {
				break
			}
		}
		if next == nil {
			panic(abort{"fell off block in " + fr.fn.String()})
		}
		prev, blk = blk, next
	}
}

// prepareCall evaluates callee and args now, returns a thunk performing the call.
func (e *Exec) prepareCall(fr *frame, cc *ssa.CallCommon) func() Value {
	args := make([]Value, len(cc.Args))
	for i, a := range cc.Args {
		args[i] = e.get(fr, a)
	}
	if cc.IsInvoke() {
		recv := e.get(fr, cc.Value).(IfaceVal)
		return func() Value { return e.invoke(recv, cc.Method, args) }
	}
	switch callee := cc.Value.(type) {
	case *ssa.Builtin:
		return func() Value { return e.builtin(callee, cc, args) }
	case *ssa.Function:
		return func() Value { return e.Call(callee, args, nil) }
	}
	cv := e.get(fr, cc.Value)
	cl, ok := cv.(*ClosureVal)
	if !ok || cl == nil {
		return func() Value { panic(goPanic{"call of nil func"}) }
	}
	return func() Value { return e.Call(cl.Fn, args, cl.Free) }
}

func (e *Exec) invoke(recv IfaceVal, m *types.Func, args []Value) Value {
	if recv.T == nil {
		panic(goPanic{"invoke on nil interface: " + m.Name()})
	}
	if mv, ok := recv.V.(ModelVal); ok {
		key := mv.Kind + "." + m.Name()
		if in, ok := modelMethods[key]; ok {
			e.st.Stubs[key]++
			e.invokeSig = m.Type().(*types.Signature)
			return in(e, mv, args)
		}
		panic(abort{"unmodelled model method " + key})
	}
	if pv, ok := recv.V.(PtrVal); ok && pv.Root != nil {
		if mv, ok := pv.Root.V.(ModelVal); ok && len(pv.Path) == 0 {
			key := mv.Kind + "." + m.Name()
			if in, ok := modelMethods[key]; ok {
				e.st.Stubs[key]++
				return in(e, mv, args)
			}
			panic(abort{"unmodelled model method " + key})
		}
	}
	sel := e.prog.MethodSets.MethodSet(recv.T).Lookup(m.Pkg(), m.Name())
	if sel == nil {
		panic(abort{fmt.Sprintf("no method %s on %v", m.Name(), recv.T)})
	}
	fn := e.prog.MethodValue(sel)
	return e.Call(fn, append([]Value{recv.V}, args...), nil)
}

type rangeIter struct {
	keys []Value
	vals []Value
	pos  int
	str  *StrVal
}

func (e *Exec) eval(fr *frame, v ssa.Value) Value {
	switch in := v.(type) {
	case *ssa.Alloc:
		return PtrVal{Root: &Cell{V: e.zero(in.Type().(*types.Pointer).Elem())}}
	case *ssa.Call:
		return e.prepareCall(fr, &in.Call)()
	case *ssa.BinOp:
		return e.binop(in.Op, e.get(fr, in.X), e.get(fr, in.Y), in.X.Type())
	case *ssa.UnOp:
		x := e.get(fr, in.X)
		switch in.Op {
		case token.MUL:
			p := x.(PtrVal)
			if p.Root == nil {
				panic(goPanic{"nil pointer dereference"})
			}
			return p.load()
		case token.NOT:
			return e.tt.Not(x.(*Term))
		case token.SUB:
			if f, ok := x.(FloatVal); ok {
				return -f
			}
			t := x.(*Term)
			return e.tt.BVBin("bvsub", e.tt.BV(t.Sort.Bits(), 0), t, true)
		case token.XOR:
			t := x.(*Term)
			return e.tt.BVBin("bvxor", t, e.tt.BV(t.Sort.Bits(), ^uint64(0)), false)
		}
		panic(abort{"unop " + in.Op.String()})
	case *ssa.FieldAddr:
		p := e.get(fr, in.X).(PtrVal)
		if p.Root == nil {
			panic(goPanic{"nil pointer dereference (field)"})
		}
		return PtrVal{Root: p.Root, Path: append(append([]int{}, p.Path...), in.Field)}
	case *ssa.Field:
		sv, ok := e.get(fr, in.X).(*StructVal)
		if !ok {
			panic(abort{fmt.Sprintf("field of %T in %s", e.get(fr, in.X), fr.fn)})
		}
		return copyValue(sv.Fields[in.Field])
	case *ssa.IndexAddr:
		x := e.get(fr, in.X)
		idx := e.get(fr, in.Index).(*Term)
		switch c := x.(type) {
		case SliceVal:
			i := e.concretize(idx, c.Len)
			if i < 0 {
				panic(goPanic{"index out of range"})
			}
			return PtrVal{Root: c.Arr, Path: []int{c.Off + i}}
		case PtrVal: // *array
			if c.Root == nil {
				panic(goPanic{"nil pointer dereference (array)"})
			}
			n := int(in.X.Type().Underlying().(*types.Pointer).Elem().Underlying().(*types.Array).Len())
			i := e.concretize(idx, n)
			if i < 0 {
				panic(goPanic{"index out of range"})
			}
			return PtrVal{Root: c.Root, Path: append(append([]int{}, c.Path...), i)}
		}
		panic(abort{fmt.Sprintf("indexaddr on %T", x)})
	case *ssa.Index:
		x := e.get(fr, in.X)
		idx := e.get(fr, in.Index).(*Term)
		switch c := x.(type) {
		case StrVal:
			i := e.concretize(idx, len(c.B))
			if i < 0 {
				panic(goPanic{"string index out of range"})
			}
			return c.B[i]
		case *ArrayVal:
			i := e.concretize(idx, len(c.Elems))
			if i < 0 {
				panic(goPanic{"index out of range"})
			}
			return copyValue(c.Elems[i])
		}
		panic(abort{fmt.Sprintf("index on %T", x)})
	case *ssa.Slice:
		return e.slice(fr, in)
	case *ssa.MakeSlice:
		n := e.concretize(e.get(fr, in.Len).(*Term), 1<<20)
		c := e.concretize(e.get(fr, in.Cap).(*Term), 1<<20)
		if n < 0 || c < n {
			panic(goPanic{"makeslice: len out of range"})
		}
		et := in.Type().Underlying().(*types.Slice).Elem()
		arr := &ArrayVal{Elems: make([]Value, c)}
		for i := range arr.Elems {
			arr.Elems[i] = e.zero(et)
		}
		return SliceVal{Arr: &Cell{V: arr}, Len: n, Cap: c}
	case *ssa.MakeMap:
		return MapRef{M: &MapVal{}}
	case *ssa.MakeClosure:
		free := make([]Value, len(in.Bindings))
		for i, b := range in.Bindings {
			free[i] = e.get(fr, b)
		}
		return &ClosureVal{Fn: in.Fn.(*ssa.Function), Free: free}
	case *ssa.MakeInterface:
		return IfaceVal{T: in.X.Type(), V: e.get(fr, in.X)}
	case *ssa.ChangeInterface:
		return e.get(fr, in.X)
	case *ssa.ChangeType:
		return e.get(fr, in.X)
	case *ssa.Convert:
		return e.convert(e.get(fr, in.X), in.X.Type(), in.Type())
	case *ssa.Extract:
		return e.get(fr, in.Tuple).(TupleVal)[in.Index]
	case *ssa.TypeAssert:
		x := e.get(fr, in.X).(IfaceVal)
		ok := false
		if x.T != nil {
			if types.IsInterface(in.AssertedType) {
				if types.IsInterface(x.T) {
					ok = true // model value standing for an interface (error)
				} else {
					ok = types.Implements(x.T, in.AssertedType.Underlying().(*types.Interface))
				}
			} else {
				ok = types.Identical(x.T, in.AssertedType)
			}
		}
		var res Value
		if ok {
			if types.IsInterface(in.AssertedType) {
				res = x
			} else {
				res = x.V
			}
		} else {
			res = e.zero(in.AssertedType)
		}
		if in.CommaOk {
			return TupleVal{res, e.tt.Bool(ok)}
		}
		if !ok {
			panic(goPanic{"interface conversion failed"})
		}
		return res
	case *ssa.Lookup:
		x := e.get(fr, in.X)
		if s, ok := x.(StrVal); ok {
			i := e.concretize(e.get(fr, in.Index).(*Term), len(s.B))
			if i < 0 {
				panic(goPanic{"string index out of range"})
			}
			return s.B[i]
		}
		val, found := e.mapLookup(x, e.get(fr, in.Index))
		if !found {
			val = e.zero(in.X.Type().Underlying().(*types.Map).Elem())
		}
		if in.CommaOk {
			return TupleVal{val, e.tt.Bool(found)}
		}
		return val
	case *ssa.Range:
		x := e.get(fr, in.X)
		switch c := x.(type) {
		case StrVal:
			return &rangeIter{str: &c}
		case MapRef:
			it := &rangeIter{}
			if c.M != nil {
				n := len(c.M.Entries)
				perm := e.permutation(n)
				for _, i := range perm {
					it.keys = append(it.keys, c.M.Entries[i].K)
					it.vals = append(it.vals, copyValue(c.M.Entries[i].V))
				}
			}
			return it
		}
		panic(abort{fmt.Sprintf("range over %T", x)})
	case *ssa.Next:
		it := e.get(fr, in.Iter).(*rangeIter)
		if it.str != nil {
			if it.pos >= len(it.str.B) {
				return TupleVal{e.tt.Bool(false), e.tt.BV(64, 0), e.tt.BV(32, 0)}
			}
			b := it.str.B[it.pos]
			if b.IsConst() && b.U >= 0x80 {
				panic(abort{"range over non-ASCII string"})
			}
			r := TupleVal{e.tt.Bool(true), e.tt.BV(64, uint64(it.pos)), e.tt.Resize(b, 32, false)}
			it.pos++
			return r
		}
		if it.pos >= len(it.keys) {
			kt := in.Type().(*types.Tuple)
			return TupleVal{e.tt.Bool(false), e.zeroOrNil(kt.At(1).Type()), e.zeroOrNil(kt.At(2).Type())}
		}
		r := TupleVal{e.tt.Bool(true), it.keys[it.pos], it.vals[it.pos]}
		it.pos++
		return r
	}
	panic(abort{fmt.Sprintf("eval %T in %s", v, fr.fn)})
}

func (e *Exec) zeroOrNil(t types.Type) Value {
	if b, ok := t.(*types.Basic); ok && b.Kind() == types.Invalid {
		return nil
	}
	return e.zero(t)
}

// permutation picks a nondeterministic order of n map entries (Go's map iteration order).
func (e *Exec) permutation(n int) []int {
	idx := make([]int, n)
	for i := range idx {
		idx[i] = i
	}
	if n <= 1 {
		return idx
	}
	if n > 4 {
		panic(abort{"range over a map with more than 4 entries"})
	}
	var perms [][]int
	var gen func(k int)
	gen = func(k int) {
		if k == n {
			perms = append(perms, append([]int{}, idx...))
			return
		}
		for i := k; i < n; i++ {
			idx[k], idx[i] = idx[i], idx[k]
			gen(k + 1)
			idx[k], idx[i] = idx[i], idx[k]
		}
	}
	gen(0)
	d := e.decide(len(perms), func(i int) *Term { return e.tt.Bool(true) })
	e.choices[fmt.Sprintf("maporder#%d", len(e.trace))] = d
	return perms[d]
}

func (e *Exec) slice(fr *frame, in *ssa.Slice) Value {
	x := e.get(fr, in.X)
	bound := func(v ssa.Value, def int, max int) int {
		if v == nil {
			return def
		}
		i := e.concretize(e.get(fr, v).(*Term), max+1)
		if i < 0 {
			panic(goPanic{"slice bounds out of range"})
		}
		return i
	}
	switch c := x.(type) {
	case StrVal:
		lo := bound(in.Low, 0, len(c.B))
		hi := bound(in.High, len(c.B), len(c.B))
		if lo > hi {
			panic(goPanic{"slice bounds out of range"})
		}
		return StrVal{B: c.B[lo:hi]}
	case SliceVal:
		lo := bound(in.Low, 0, c.Cap)
		hi := bound(in.High, c.Len, c.Cap)
		mx := bound(in.Max, c.Cap, c.Cap)
		if lo > hi || hi > mx {
			panic(goPanic{"slice bounds out of range"})
		}
		if c.Arr == nil {
			return SliceVal{}
		}
		return SliceVal{Arr: c.Arr, Off: c.Off + lo, Len: hi - lo, Cap: mx - lo, Blob: c.Blob, Att: c.Att}
	case PtrVal: // *array
		n := int(in.X.Type().Underlying().(*types.Pointer).Elem().Underlying().(*types.Array).Len())
		lo := bound(in.Low, 0, n)
		hi := bound(in.High, n, n)
		if lo > hi {
			panic(goPanic{"slice bounds out of range"})
		}
		if len(c.Path) != 0 {
			// array nested in a struct: materialise a view cell sharing the array value
			av := c.loadRef().(*ArrayVal)
			return SliceVal{Arr: &Cell{V: av}, Off: lo, Len: hi - lo, Cap: n - lo}
		}
		return SliceVal{Arr: c.Root, Off: lo, Len: hi - lo, Cap: n - lo}
	}
	panic(abort{fmt.Sprintf("slice of %T", x)})
}

func (e *Exec) convert(x Value, from, to types.Type) Value {
	tu := to.Underlying()
	if tb, ok := tu.(*types.Basic); ok {
		if tb.Info()&types.IsInteger != 0 {
			if t, ok := x.(*Term); ok {
				return e.tt.Resize(t, intBits(tb), isSignedT(from))
			}
			if f, ok := x.(FloatVal); ok {
				return e.tt.BV(intBits(tb), uint64(int64(f)))
			}
		}
		if tb.Info()&types.IsFloat != 0 {
			if f, ok := x.(FloatVal); ok {
				return f
			}
			if t, ok := x.(*Term); ok && t.IsConst() {
				if isSignedT(from) {
					return FloatVal(float64(signed(t.U, t.Sort.Bits())))
				}
				return FloatVal(float64(t.U))
			}
		}
		if tb.Info()&types.IsString != 0 {
			switch s := x.(type) {
			case SliceVal:
				return StrVal{B: append([]*Term{}, e.bytesOf(s)...), Att: s.Att}
			case StrVal:
				return s
			case *Term: // string(rune)
				if s.IsConst() && s.U < 0x80 {
					return StrVal{B: []*Term{e.tt.BV(8, s.U)}}
				}
			}
		}
	}
	if _, ok := tu.(*types.Slice); ok {
		if s, ok := x.(StrVal); ok {
			r := e.mkByteSlice(append([]*Term{}, s.B...))
			r.Att = s.Att
			return r
		}
		if s, ok := x.(SliceVal); ok {
			return s
		}
	}
	panic(abort{fmt.Sprintf("convert %v -> %v (%T)", from, to, x)})
}

func (e *Exec) strEq(a, b []*Term) *Term {
	if len(a) != len(b) {
		return e.tt.Bool(false)
	}
	r := e.tt.Bool(true)
	for i := range a {
		r = e.tt.And(r, e.tt.Eq(a[i], b[i]))
		if r.IsConst() && r.U == 0 {
			return r
		}
	}
	return r
}

// strValEq: equality of strings. Two pricing texts are rendered canonically from their terms by the native
// side, so they are equal exactly when their terms are equal (their placeholder bytes say nothing).
func (e *Exec) strValEq(a, b StrVal) *Term {
	pa, oka := a.Att.(*PricingAtt)
	pb, okb := b.Att.(*PricingAtt)
	if !oka || !okb {
		return e.strEq(a.B, b.B)
	}
	if pa == pb {
		return e.tt.Bool(true)
	}
	if len(pa.ByTime) != len(pb.ByTime) || len(pa.ByVol) != len(pb.ByVol) || pa.Denom != pb.Denom || pa.PriceDec != pb.PriceDec {
		return e.tt.Bool(false)
	}
	r := e.tt.Eq(pa.Price, pb.Price)
	for i := range pa.ByTime {
		x, y := pa.ByTime[i], pb.ByTime[i]
		r = e.tt.And(r, e.tt.And(e.tt.And(e.tt.Eq(x.Start.NS, y.Start.NS), e.tt.Eq(x.End.NS, y.End.NS)), e.tt.Eq(x.Disc, y.Disc)))
	}
	for i := range pa.ByVol {
		x, y := pa.ByVol[i], pb.ByVol[i]
		r = e.tt.And(r, e.tt.And(e.tt.Eq(x.Vol, y.Vol), e.tt.Eq(x.Disc, y.Disc)))
	}
	return r
}

// lexLess builds the term "a < b" for byte strings (lexicographic).
func (e *Exec) lexLess(a, b []*Term) *Term {
	n := len(a)
	if len(b) < n {
		n = len(b)
	}
	r := e.tt.Bool(len(a) < len(b))
	for i := n - 1; i >= 0; i-- {
		lt := e.tt.BVCmp("bvult", a[i], b[i])
		eq := e.tt.Eq(a[i], b[i])
		r = e.tt.Or(lt, e.tt.And(eq, r))
	}
	return r
}

func (e *Exec) binop(op token.Token, x, y Value, xt types.Type) Value {
	switch a := x.(type) {
	case *Term:
		b := y.(*Term)
		if a.Sort == SBool {
			switch op {
			case token.EQL:
				return e.tt.Eq(a, b)
			case token.NEQ:
				return e.tt.Not(e.tt.Eq(a, b))
			case token.AND, token.LAND:
				return e.tt.And(a, b)
			case token.OR, token.LOR:
				return e.tt.Or(a, b)
			}
			panic(abort{"bool binop " + op.String()})
		}
		sg := isSignedT(xt)
		if b.Sort != a.Sort { // shifts may have different width
			b = e.tt.Resize(b, a.Sort.Bits(), false)
		}
		switch op {
		case token.ADD:
			return e.exactSum(e.tt.BVBin("bvadd", a, b, sg), a, b, "+")
		case token.SUB:
			return e.exactSum(e.tt.BVBin("bvsub", a, b, sg), a, b, "-")
		case token.MUL:
			return e.tt.BVBin("bvmul", a, b, sg)
		case token.QUO, token.REM:
			if e.branch(e.tt.Eq(b, e.tt.BV(b.Sort.Bits(), 0))) {
				panic(goPanic{"integer divide by zero"})
			}
			o := map[bool]map[token.Token]string{true: {token.QUO: "bvsdiv", token.REM: "bvsrem"}, false: {token.QUO: "bvudiv", token.REM: "bvurem"}}[sg][op]
			return e.tt.BVBin(o, a, b, sg)
		case token.AND:
			return e.tt.BVBin("bvand", a, b, sg)
		case token.OR:
			return e.tt.BVBin("bvor", a, b, sg)
		case token.XOR:
			return e.tt.BVBin("bvxor", a, b, sg)
		case token.AND_NOT:
			return e.tt.BVBin("bvand", a, e.tt.BVBin("bvxor", b, e.tt.BV(b.Sort.Bits(), ^uint64(0)), false), sg)
		case token.SHL:
			return e.tt.BVBin("bvshl", a, b, sg)
		case token.SHR:
			if sg {
				return e.tt.BVBin("bvashr", a, b, sg)
			}
			return e.tt.BVBin("bvlshr", a, b, sg)
		case token.EQL:
			return e.tt.Eq(a, b)
		case token.NEQ:
			return e.tt.Not(e.tt.Eq(a, b))
		case token.LSS:
			return e.tt.BVCmp(map[bool]string{true: "bvslt", false: "bvult"}[sg], a, b)
		case token.LEQ:
			return e.tt.BVCmp(map[bool]string{true: "bvsle", false: "bvule"}[sg], a, b)
		case token.GTR:
			return e.tt.BVCmp(map[bool]string{true: "bvslt", false: "bvult"}[sg], b, a)
		case token.GEQ:
			return e.tt.BVCmp(map[bool]string{true: "bvsle", false: "bvule"}[sg], b, a)
		}
	case FloatVal:
		b := y.(FloatVal)
		switch op {
		case token.ADD:
			return a + b
		case token.SUB:
			return a - b
		case token.MUL:
			return a * b
		case token.QUO:
			return a / b
		case token.LSS:
			return e.tt.Bool(a < b)
		case token.LEQ:
			return e.tt.Bool(a <= b)
		case token.GTR:
			return e.tt.Bool(a > b)
		case token.GEQ:
			return e.tt.Bool(a >= b)
		case token.EQL:
			return e.tt.Bool(a == b)
		case token.NEQ:
			return e.tt.Bool(a != b)
		}
	case StrVal:
		b := y.(StrVal)
		switch op {
		case token.ADD:
			return StrVal{B: append(append([]*Term{}, a.B...), b.B...)}
		case token.EQL:
			return e.strValEq(a, b)
		case token.NEQ:
			return e.tt.Not(e.strValEq(a, b))
		case token.LSS:
			return e.lexLess(a.B, b.B)
		case token.GTR:
			return e.lexLess(b.B, a.B)
		case token.LEQ:
			return e.tt.Not(e.lexLess(b.B, a.B))
		case token.GEQ:
			return e.tt.Not(e.lexLess(a.B, b.B))
		}
	case IfaceVal:
		b := y.(IfaceVal)
		eq := e.ifaceEq(a, b)
		if op == token.EQL {
			return eq
		}
		return e.tt.Not(eq)
	case SliceVal:
		b := y.(SliceVal)
		if b.Arr != nil && a.Arr != nil {
			panic(abort{"slice compared to non-nil"})
		}
		isNil := a.Arr == nil && b.Arr == nil
		if op == token.EQL {
			return e.tt.Bool(isNil)
		}
		return e.tt.Bool(!isNil)
	case PtrVal:
		b := y.(PtrVal)
		eq := a.Root == b.Root && fmt.Sprint(a.Path) == fmt.Sprint(b.Path)
		if op == token.EQL {
			return e.tt.Bool(eq)
		}
		return e.tt.Bool(!eq)
	case MapRef:
		b := y.(MapRef)
		eq := a.M == b.M
		if op == token.EQL {
			return e.tt.Bool(eq)
		}
		return e.tt.Bool(!eq)
	case *ClosureVal:
		b, _ := y.(*ClosureVal)
		eq := a == nil && b == nil
		if op == token.EQL {
			return e.tt.Bool(eq)
		}
		return e.tt.Bool(!eq)
	case *StructVal:
		b := y.(*StructVal)
		eq := e.valueEq(a, b)
		if op == token.EQL {
			return eq
		}
		return e.tt.Not(eq)
	case TimeVal:
		b := y.(TimeVal)
		eq := e.tt.Eq(a.NS, b.NS)
		if op == token.EQL {
			return eq
		}
		return e.tt.Not(eq)
	case nil:
		if y == nil {
			return e.tt.Bool(op == token.EQL)
		}
	}
	panic(abort{fmt.Sprintf("binop %s on %T", op, x)})
}

func (e *Exec) ifaceEq(a, b IfaceVal) *Term {
	if a.T == nil || b.T == nil {
		return e.tt.Bool(a.T == nil && b.T == nil)
	}
	am, aok := a.V.(ModelVal)
	bm, bok := b.V.(ModelVal)
	if aok && bok {
		return e.tt.Bool(am.Kind == bm.Kind && am.Tag == bm.Tag)
	}
	if aok != bok {
		return e.tt.Bool(false)
	}
	if !types.Identical(a.T, b.T) {
		return e.tt.Bool(false)
	}
	return e.valueEq(a.V, b.V)
}

// valueEq: Go == on comparable values
func (e *Exec) valueEq(a, b Value) *Term {
	switch x := a.(type) {
	case *Term:
		return e.tt.Eq(x, b.(*Term))
	case StrVal:
		return e.strValEq(x, b.(StrVal))
	case PtrVal:
		y := b.(PtrVal)
		return e.tt.Bool(x.Root == y.Root && fmt.Sprint(x.Path) == fmt.Sprint(y.Path))
	case *StructVal:
		y := b.(*StructVal)
		r := e.tt.Bool(true)
		for i := range x.Fields {
			r = e.tt.And(r, e.valueEq(x.Fields[i], y.Fields[i]))
		}
		return r
	case *ArrayVal:
		y := b.(*ArrayVal)
		r := e.tt.Bool(true)
		for i := range x.Elems {
			r = e.tt.And(r, e.valueEq(x.Elems[i], y.Elems[i]))
		}
		return r
	case IfaceVal:
		return e.ifaceEq(x, b.(IfaceVal))
	case *BigVal:
		panic(abort{"== on sdk.Int/Dec structs"})
	case TimeVal:
		return e.tt.Eq(x.NS, b.(TimeVal).NS)
	}
	panic(abort{fmt.Sprintf("valueEq on %T", a)})
}

func (e *Exec) builtin(b *ssa.Builtin, cc *ssa.CallCommon, args []Value) Value {
	switch b.Name() {
	case "len":
		switch x := args[0].(type) {
		case StrVal:
			return e.tt.BV(64, uint64(len(x.B)))
		case SliceVal:
			return e.tt.BV(64, uint64(x.Len))
		case MapRef:
			if x.M == nil {
				return e.tt.BV(64, 0)
			}
			// keys may alias only if inserted through symbolic-equal keys, which mapUpdate resolves
			return e.tt.BV(64, uint64(len(x.M.Entries)))
		}
	case "cap":
		return e.tt.BV(64, uint64(args[0].(SliceVal).Cap))
	case "append":
		s := args[0].(SliceVal)
		var add []Value
		switch y := args[1].(type) {
		case SliceVal:
			for _, el := range y.elems() {
				add = append(add, copyValue(el))
			}
		case StrVal:
			for _, t := range y.B {
				add = append(add, t)
			}
		}
		if len(add) == 0 {
			return s
		}
		if s.Arr != nil && s.Len+len(add) <= s.Cap {
			arr := s.Arr.V.(*ArrayVal)
			copy(arr.Elems[s.Off+s.Len:], add)
			return SliceVal{Arr: s.Arr, Off: s.Off, Len: s.Len + len(add), Cap: s.Cap}
		}
		n := &ArrayVal{Elems: make([]Value, 0, s.Len+len(add))}
		for _, el := range s.elems() {
			n.Elems = append(n.Elems, copyValue(el))
		}
		n.Elems = append(n.Elems, add...)
		return SliceVal{Arr: &Cell{V: n}, Len: len(n.Elems), Cap: len(n.Elems)}
	case "copy":
		d := args[0].(SliceVal)
		var src []Value
		switch y := args[1].(type) {
		case SliceVal:
			src = y.elems()
		case StrVal:
			for _, t := range y.B {
				src = append(src, t)
			}
		}
		n := d.Len
		if len(src) < n {
			n = len(src)
		}
		if n > 0 {
			arr := d.Arr.V.(*ArrayVal)
			tmp := make([]Value, n)
			for i := 0; i < n; i++ {
				tmp[i] = copyValue(src[i])
			}
			copy(arr.Elems[d.Off:], tmp)
		}
		return e.tt.BV(64, uint64(n))
	case "delete":
		e.mapDelete(args[0], args[1])
		return nil
	case "print", "println":
		return nil
	case "ssa:wrapnilchk":
		if p, ok := args[0].(PtrVal); ok && p.Root == nil {
			panic(goPanic{"value method called using nil pointer"})
		}
		return args[0]
	}
	panic(abort{"builtin " + b.Name()})
}

// --- maps (association lists; keys: strings or scalar terms)
func (e *Exec) keyEq(a, b Value) *Term {
	switch x := a.(type) {
	case StrVal:
		return e.strValEq(x, b.(StrVal))
	case *Term:
		return e.tt.Eq(x, b.(*Term))
	case IfaceVal:
		return e.ifaceEq(x, b.(IfaceVal))
	}
	panic(abort{fmt.Sprintf("map key %T", a)})
}
func (e *Exec) mapLookup(m Value, k Value) (Value, bool) {
	mr := m.(MapRef)
	if mr.M == nil {
		return nil, false
	}
	for _, en := range mr.M.Entries {
		if e.branch(e.keyEq(en.K, k)) {
			return copyValue(en.V), true
		}
	}
	return nil, false
}
func (e *Exec) mapUpdate(m Value, k, v Value) {
	mr := m.(MapRef)
	if mr.M == nil {
		panic(goPanic{"assignment to entry in nil map"})
	}
	for i, en := range mr.M.Entries {
		if e.branch(e.keyEq(en.K, k)) {
			mr.M.Entries[i].V = copyValue(v)
			return
		}
	}
	mr.M.Entries = append(mr.M.Entries, MapEntry{K: k, V: copyValue(v)})
}
func (e *Exec) mapDelete(m Value, k Value) {
	mr := m.(MapRef)
	if mr.M == nil {
		return
	}
	for i, en := range mr.M.Entries {
		if e.branch(e.keyEq(en.K, k)) {
			mr.M.Entries = append(mr.M.Entries[:i:i], mr.M.Entries[i+1:]...)
			return
		}
	}
}
