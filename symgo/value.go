package main

import (
	"fmt"
	"go/types"

	"golang.org/x/tools/go/ssa"
)

type Value interface{}

type Cell struct{ V Value }

type BigVal struct { // sdk.Int / sdk.Dec (Dec: numerator at 10^18)
	T   *Term
	Nil bool
}
type StructVal struct{ Fields []Value }
type ArrayVal struct{ Elems []Value }
type SliceVal struct {
	Arr           *Cell // holds *ArrayVal; nil => nil slice
	Off, Len, Cap int
	Blob          Value // non-nil: opaque codec blob carrying a snapshot
	Att           interface{}
}
type StrVal struct {
	B   []*Term
	Att interface{} // optional structured attachment (pricing text, json payload)
}

// TimeVal is a time.Time as mathematical nanoseconds since 0001-01-01T00:00:00Z (SInt term).
type TimeVal struct{ NS *Term }
type PtrVal struct {
	Root *Cell
	Path []int
}
type IfaceVal struct {
	T types.Type // nil => nil interface
	V Value
}
type ClosureVal struct {
	Fn   *ssa.Function
	Free []Value
}
type MapEntry struct{ K, V Value }
type MapVal struct{ Entries []MapEntry }
type MapRef struct{ M *MapVal } // nil map: M == nil
type TupleVal []Value
type ModelVal struct {
	Kind string
	Tag  string
	Obj  interface{}
}

func copyValue(v Value) Value {
	switch x := v.(type) {
	case *StructVal:
		n := &StructVal{Fields: make([]Value, len(x.Fields))}
		for i, f := range x.Fields {
			n.Fields[i] = copyValue(f)
		}
		return n
	case *ArrayVal:
		n := &ArrayVal{Elems: make([]Value, len(x.Elems))}
		for i, f := range x.Elems {
			n.Elems[i] = copyValue(f)
		}
		return n
	}
	return v
}

func (e *Exec) zero(t types.Type) Value {
	switch u := t.Underlying().(type) {
	case *types.Basic:
		switch {
		case u.Info()&types.IsBoolean != 0:
			return e.tt.Bool(false)
		case u.Info()&types.IsInteger != 0:
			return e.tt.BV(intBits(u), 0)
		case u.Info()&types.IsString != 0:
			return StrVal{}
		case u.Kind() == types.UnsafePointer:
			return PtrVal{}
		case u.Kind() == types.UntypedNil:
			return nil
		}
		panic(fmt.Sprintf("zero basic %v", u))
	case *types.Struct:
		if isBig(t) {
			return &BigVal{Nil: true}
		}
		if isTime(t) {
			return TimeVal{NS: e.tt.Int64(0)}
		}
		s := &StructVal{Fields: make([]Value, u.NumFields())}
		for i := 0; i < u.NumFields(); i++ {
			s.Fields[i] = e.zero(u.Field(i).Type())
		}
		return s
	case *types.Array:
		a := &ArrayVal{Elems: make([]Value, u.Len())}
		for i := range a.Elems {
			a.Elems[i] = e.zero(u.Elem())
		}
		return a
	case *types.Slice:
		return SliceVal{}
	case *types.Pointer:
		return PtrVal{}
	case *types.Interface:
		return IfaceVal{}
	case *types.Map:
		return MapRef{}
	case *types.Signature:
		return (*ClosureVal)(nil)
	case *types.Chan:
		return nil
	case *types.Tuple:
		tv := make(TupleVal, u.Len())
		for i := range tv {
			tv[i] = e.zero(u.At(i).Type())
		}
		return tv
	}
	panic(fmt.Sprintf("zero %T %v", t.Underlying(), t))
}

func isBig(t types.Type) bool {
	n, ok := t.(*types.Named)
	if !ok {
		return false
	}
	if n.Obj().Pkg() == nil || n.Obj().Pkg().Path() != "github.com/cosmos/cosmos-sdk/types" {
		return false
	}
	return n.Obj().Name() == "Int" || n.Obj().Name() == "Dec" || n.Obj().Name() == "Uint"
}

func isTime(t types.Type) bool {
	n, ok := t.(*types.Named)
	return ok && n.Obj().Pkg() != nil && n.Obj().Pkg().Path() == "time" && n.Obj().Name() == "Time"
}

func intBits(b *types.Basic) int {
	switch b.Kind() {
	case types.Int8, types.Uint8:
		return 8
	case types.Int16, types.Uint16:
		return 16
	case types.Int32, types.Uint32:
		return 32
	case types.UntypedRune:
		return 32
	}
	return 64
}

func isSignedT(t types.Type) bool {
	b, ok := t.Underlying().(*types.Basic)
	if !ok {
		return false
	}
	return b.Info()&types.IsUnsigned == 0
}

// navigate returns the addressable slot for a pointer.
func (p PtrVal) load() Value {
	v := p.Root.V
	for _, i := range p.Path {
		switch x := v.(type) {
		case *StructVal:
			v = x.Fields[i]
		case *ArrayVal:
			v = x.Elems[i]
		default:
			panic(fmt.Sprintf("load path through %T", v))
		}
	}
	return copyValue(v)
}

// loadRef returns the addressed value without copying (for read-only views).
func (p PtrVal) loadRef() Value {
	v := p.Root.V
	for _, i := range p.Path {
		switch x := v.(type) {
		case *StructVal:
			v = x.Fields[i]
		case *ArrayVal:
			v = x.Elems[i]
		default:
			panic(fmt.Sprintf("load path through %T", v))
		}
	}
	return v
}

func (p PtrVal) store(nv Value) {
	nv = copyValue(nv)
	if len(p.Path) == 0 {
		p.Root.V = nv
		return
	}
	v := p.Root.V
	for _, i := range p.Path[:len(p.Path)-1] {
		switch x := v.(type) {
		case *StructVal:
			v = x.Fields[i]
		case *ArrayVal:
			v = x.Elems[i]
		default:
			panic(fmt.Sprintf("store path through %T", v))
		}
	}
	last := p.Path[len(p.Path)-1]
	switch x := v.(type) {
	case *StructVal:
		x.Fields[last] = nv
	case *ArrayVal:
		x.Elems[last] = nv
	default:
		panic(fmt.Sprintf("store into %T", v))
	}
}

func (s SliceVal) elems() []Value {
	if s.Arr == nil {
		return nil
	}
	return s.Arr.V.(*ArrayVal).Elems[s.Off : s.Off+s.Len]
}

func (e *Exec) bytesOf(v Value) []*Term {
	switch x := v.(type) {
	case StrVal:
		return x.B
	case SliceVal:
		var out []*Term
		for _, el := range x.elems() {
			out = append(out, el.(*Term))
		}
		return out
	}
	panic(fmt.Sprintf("bytesOf %T", v))
}

func (e *Exec) mkByteSlice(b []*Term) SliceVal {
	arr := &ArrayVal{Elems: make([]Value, len(b))}
	for i, t := range b {
		arr.Elems[i] = t
	}
	return SliceVal{Arr: &Cell{V: arr}, Len: len(b), Cap: len(b)}
}

func (e *Exec) constStr(s string) StrVal {
	b := make([]*Term, len(s))
	for i := 0; i < len(s); i++ {
		b[i] = e.tt.BV(8, uint64(s[i]))
	}
	return StrVal{B: b}
}

func concreteString(s StrVal) (string, bool) {
	out := make([]byte, len(s.B))
	for i, t := range s.B {
		if !t.IsConst() {
			return "", false
		}
		out[i] = byte(t.U)
	}
	return string(out), true
}

// cloner deep-copies a value graph, preserving aliasing between cells and maps (terms are immutable and shared).
type cloner struct {
	cells map[*Cell]*Cell
	maps  map[*MapVal]*MapVal
}

func newCloner() *cloner { return &cloner{cells: map[*Cell]*Cell{}, maps: map[*MapVal]*MapVal{}} }

func (c *cloner) cell(x *Cell) *Cell {
	if x == nil {
		return nil
	}
	if n, ok := c.cells[x]; ok {
		return n
	}
	n := &Cell{}
	c.cells[x] = n
	n.V = c.value(x.V)
	return n
}

func (c *cloner) value(v Value) Value {
	switch x := v.(type) {
	case *StructVal:
		n := &StructVal{Fields: make([]Value, len(x.Fields))}
		for i, f := range x.Fields {
			n.Fields[i] = c.value(f)
		}
		return n
	case *ArrayVal:
		n := &ArrayVal{Elems: make([]Value, len(x.Elems))}
		for i, f := range x.Elems {
			n.Elems[i] = c.value(f)
		}
		return n
	case SliceVal:
		x.Arr = c.cell(x.Arr)
		if x.Blob != nil {
			x.Blob = c.value(x.Blob)
		}
		return x
	case PtrVal:
		x.Root = c.cell(x.Root)
		return x
	case IfaceVal:
		x.V = c.value(x.V)
		return x
	case *ClosureVal:
		if x == nil {
			return x
		}
		n := &ClosureVal{Fn: x.Fn, Free: make([]Value, len(x.Free))}
		for i, f := range x.Free {
			n.Free[i] = c.value(f)
		}
		return n
	case MapRef:
		if x.M == nil {
			return x
		}
		if n, ok := c.maps[x.M]; ok {
			return MapRef{M: n}
		}
		n := &MapVal{}
		c.maps[x.M] = n
		for _, en := range x.M.Entries {
			n.Entries = append(n.Entries, MapEntry{K: c.value(en.K), V: c.value(en.V)})
		}
		return MapRef{M: n}
	case TupleVal:
		n := make(TupleVal, len(x))
		for i, f := range x {
			n[i] = c.value(f)
		}
		return n
	}
	return v
}
