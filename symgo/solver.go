package main

import (
	"bufio"
	"crypto/sha1"
	"fmt"
	"io"
	"os"
	"os/exec"
	"sort"
	"strconv"
	"strings"
	"sync"
	"sync/atomic"
	"time"
)

var slowDir = os.Getenv("SYMGO_SLOWDIR")
var slowN int

// Solver keeps solver processes alive and answers self-contained queries.
// Pure bit-vector/boolean queries go to an incremental process (push/pop: no
// start-up or reset cost); queries with integer arithmetic go to a process that is
// reset per query (z3's incremental core is much slower on non-linear integers).
type proc struct {
	limit   time.Duration
	dead    bool
	cmd     *exec.Cmd
	in      io.WriteCloser
	out     *bufio.Reader
	started bool
	pending bool
}

type Solver struct {
	argv      []string
	inc       *proc
	one       *proc
	Queries   int
	Time      time.Duration
	pre       string
	tt        *TermTable
	last      string
	CacheHits int
	Fallbacks int
	alts      map[string]*proc
}

var queryCache sync.Map
var solverDeadline int64

func (s *Solver) takeTime() time.Duration { t := s.Time; s.Time = 0; return t }

func startProc(argv []string) *proc {
	cmd := exec.Command(argv[0], argv[1:]...)
	in, _ := cmd.StdinPipe()
	outp, _ := cmd.StdoutPipe()
	cmd.Stderr = cmd.Stdout
	if err := cmd.Start(); err != nil {
		panic(err)
	}
	limit := 90 * time.Second
	for _, a := range argv {
		for _, pre := range []string{"-t:", "--tlimit-per="} {
			if strings.HasPrefix(a, pre) {
				if ms, err := strconv.Atoi(a[len(pre):]); err == nil {
					limit = time.Duration(ms)*time.Millisecond*3 + 5*time.Second
				}
			}
		}
	}
	return &proc{cmd: cmd, in: in, out: bufio.NewReader(outp), limit: limit}
}

func NewSolver(argv []string) *Solver {
	s := &Solver{argv: argv}
	if argv[0] == "cvc5" {
		s.pre = "(set-logic ALL)\n"
	}
	return s
}

func (s *Solver) Close() {
	all := []*proc{s.inc, s.one}
	for _, a := range s.alts {
		all = append(all, a)
	}
	for _, p := range all {
		if p != nil {
			p.in.Close()
			p.cmd.Wait()
		}
	}
}

// Check asks whether the conjunction of the roots is satisfiable.
// want lists variables to evaluate in the model when sat.
func (s *Solver) Check(roots []*Term, want []*Term) (string, map[string]string) {
	var key [20]byte
	if len(want) == 0 && s.tt != nil {
		hs := make([]string, len(roots))
		for i, r := range roots {
			h := s.tt.Hash(r)
			hs[i] = string(h[:])
		}
		sort.Strings(hs)
		key = sha1.Sum([]byte(strings.Join(hs, "")))
		if v, ok := queryCache.Load(key); ok {
			s.CacheHits++
			return v.(string), nil
		}
		defer func() {
			if s.last == "sat" || s.last == "unsat" {
				queryCache.Store(key, s.last)
			}
		}()
	}
	s.last = ""
	if dl := atomic.LoadInt64(&solverDeadline); dl != 0 && time.Now().Unix() > dl {
		return "unknown", nil // past the run's time budget: the run is inconclusive anyway
	}
	t0 := time.Now()
	defer func() { s.Time += time.Since(t0); s.Queries++ }()
	all := append(append([]*Term{}, roots...), want...)
	script, names, hasInt := Script(all)
	var sb strings.Builder
	var p *proc
	if hasInt || s.argv[0] == "cvc5" {
		if s.one == nil || s.one.dead {
			s.one = startProc(s.argv)
		}
		p = s.one
		sb.WriteString("(reset)\n(set-option :produce-models true)\n")
		sb.WriteString(s.pre)
	} else {
		if s.inc == nil || s.inc.dead {
			s.inc = startProc(s.argv)
		}
		p = s.inc
		if !p.started {
			sb.WriteString("(set-option :produce-models true)\n")
			p.started = true
		}
		if p.pending {
			sb.WriteString("(pop 1)\n")
		}
		sb.WriteString("(push 1)\n")
		p.pending = true
	}
	sb.WriteString(script)
	for i := range roots {
		fmt.Fprintf(&sb, "(assert %s)\n", names[i])
	}
	sb.WriteString("(check-sat)\n(echo \"<<done>>\")\n")
	tq := time.Now()
	io.WriteString(p.in, sb.String())
	res := p.readUntilDone()
	if d := time.Since(tq); slowDir != "" && d > 300*time.Millisecond {
		slowN++
		os.WriteFile(fmt.Sprintf("%s/q%d_%dms.smt2", slowDir, slowN, d.Milliseconds()), []byte(sb.String()), 0o644)
	}
	verdict := "unknown"
	for _, l := range res {
		if strings.Contains(l, "(error") {
			return "error: " + l, nil
		}
		if l == "sat" || l == "unsat" || l == "unknown" {
			verdict = l
		}
	}
	if verdict == "unknown" && s.argv[0] == "z3" {
		// portfolio: the query goes to z3 5.1 (z3-new), then to cvc5
		for _, alt := range [][]string{{"z3-new", "-in", "-t:60000"}, {"cvc5", "--incremental", "--produce-models", "--tlimit-per=60000", "--lang=smt2"}} {
			key := alt[0]
			if s.alts == nil {
				s.alts = map[string]*proc{}
			}
			ap := s.alts[key]
			if ap == nil || ap.dead {
				ap = startProc(alt)
				s.alts[key] = ap
			}
			var ab strings.Builder
			ab.WriteString("(reset)\n(set-option :produce-models true)\n")
			if key == "cvc5" {
				ab.WriteString("(set-logic ALL)\n")
			}
			ab.WriteString(script)
			for i := range roots {
				fmt.Fprintf(&ab, "(assert %s)\n", names[i])
			}
			ab.WriteString("(check-sat)\n(echo \"<<done>>\")\n")
			io.WriteString(ap.in, ab.String())
			ares := ap.readUntilDone()
			av := "unknown"
			bad := false
			for _, l := range ares {
				if strings.Contains(l, "(error") {
					bad = true
				}
				if l == "sat" || l == "unsat" {
					av = l
				}
			}
			s.Fallbacks++
			if !bad && av != "unknown" {
				verdict = av
				p = ap
				break
			}
		}
	}
	s.last = verdict
	if verdict != "sat" || len(want) == 0 {
		return verdict, nil
	}
	var q strings.Builder
	q.WriteString("(get-value (")
	for i := range want {
		q.WriteString(names[len(roots)+i])
		q.WriteByte(' ')
	}
	q.WriteString("))\n(echo \"<<done>>\")\n")
	io.WriteString(p.in, q.String())
	lines := p.readUntilDone()
	model := map[string]string{}
	joined := strings.Join(lines, " ")
	// crude parse: ((name value) (name value) ...)
	for i, w := range want {
		n := names[len(roots)+i]
		idx := strings.Index(joined, "("+n+" ")
		if idx < 0 {
			continue
		}
		rest := joined[idx+len(n)+2:]
		depth := 0
		end := 0
		for j, c := range rest {
			if c == '(' {
				depth++
			}
			if c == ')' {
				if depth == 0 {
					end = j
					break
				}
				depth--
			}
		}
		model[w.Name] = strings.TrimSpace(rest[:end])
	}
	return verdict, model
}

// askAlt sends a self-contained query to another solver process (kept alive under the given name)
func (s *Solver) askAlt(name string, argv []string, script string, names []string, nroots int) string {
	if s.alts == nil {
		s.alts = map[string]*proc{}
	}
	ap := s.alts[name]
	if ap == nil || ap.dead {
		ap = startProc(argv)
		s.alts[name] = ap
	}
	var ab strings.Builder
	ab.WriteString("(reset)\n(set-option :produce-models true)\n")
	if argv[0] == "cvc5" {
		ab.WriteString("(set-logic ALL)\n")
	}
	ab.WriteString(script)
	for i := 0; i < nroots; i++ {
		fmt.Fprintf(&ab, "(assert %s)\n", names[i])
	}
	ab.WriteString("(check-sat)\n(echo \"<<done>>\")\n")
	io.WriteString(ap.in, ab.String())
	av := "unknown"
	for _, l := range ap.readUntilDone() {
		if strings.Contains(l, "(error") {
			return "error: " + l
		}
		if l == "sat" || l == "unsat" {
			av = l
		}
	}
	return av
}

var xchecked sync.Map

// CrossCheck re-asks a query that the primary solver answered "unsat" on z3 5.1 and on cvc5 (3 s each).
// It returns the number of second opinions obtained and, if one of them contradicts the verdict, which.
func (s *Solver) CrossCheck(roots []*Term) (opinions int, contradiction string) {
	script, names, _ := Script(roots)
	for _, alt := range [][]string{{"z3-new", "-in", "-t:3000"}, {"cvc5", "--incremental", "--produce-models", "--tlimit-per=3000", "--lang=smt2"}} {
		v := s.askAlt(alt[0]+"-x", alt, script, names, len(roots))
		switch {
		case v == "unsat":
			opinions++
		case v == "sat" || strings.HasPrefix(v, "error"):
			var ab strings.Builder
			ab.WriteString(script)
			for i := range roots {
				fmt.Fprintf(&ab, "(assert %s)\n", names[i])
			}
			ab.WriteString("(check-sat)\n")
			return opinions, alt[0] + " answers " + v + " where z3 answered unsat\n" + ab.String()
		}
	}
	return opinions, ""
}

// readUntilDone reads the solver's answer; a watchdog kills a solver that stays silent past its
// own time limit (its answer is then "unknown" and the process is restarted on the next query).
func (s *proc) readUntilDone() []string {
	var lines []string
	watchdog := time.AfterFunc(s.limit, func() {
		s.dead = true
		s.cmd.Process.Kill()
		fmt.Fprintf(os.Stderr, "solver watchdog: killed a silent %s after %v\n", s.cmd.Path, s.limit)
	})
	defer watchdog.Stop()
	for {
		l, err := s.out.ReadString('\n')
		l = strings.TrimSpace(l)
		if err != nil {
			s.dead = true
			return lines
		}
		if l == "<<done>>" {
			return lines
		}
		if l != "" {
			lines = append(lines, l)
		}
	}
}
