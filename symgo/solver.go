package main

import (
	"bufio"
	"fmt"
	"io"
	"os/exec"
	"strings"
	"time"
)

// Solver keeps one z3 process alive and answers self-contained queries.
type Solver struct {
	cmd     *exec.Cmd
	in      io.WriteCloser
	out     *bufio.Reader
	Queries int
	Time    time.Duration
	pre     string
}

func (s *Solver) takeTime() time.Duration { t := s.Time; s.Time = 0; return t }

func NewSolver(argv []string) *Solver {
	cmd := exec.Command(argv[0], argv[1:]...)
	in, _ := cmd.StdinPipe()
	outp, _ := cmd.StdoutPipe()
	cmd.Stderr = cmd.Stdout
	if err := cmd.Start(); err != nil {
		panic(err)
	}
	s := &Solver{cmd: cmd, in: in, out: bufio.NewReader(outp)}
	if argv[0] == "cvc5" {
		s.pre = "(set-logic ALL)\n"
	}
	return s
}

func (s *Solver) Close() { s.in.Close(); s.cmd.Wait() }

// Check asks whether the conjunction of the roots is satisfiable.
// want lists variables to evaluate in the model when sat.
func (s *Solver) Check(roots []*Term, want []*Term) (string, map[string]string) {
	t0 := time.Now()
	defer func() { s.Time += time.Since(t0); s.Queries++ }()
	all := append(append([]*Term{}, roots...), want...)
	script, names := Script(all)
	var sb strings.Builder
	sb.WriteString("(reset)\n(set-option :produce-models true)\n")
	sb.WriteString(s.pre)
	sb.WriteString(script)
	for i := range roots {
		fmt.Fprintf(&sb, "(assert %s)\n", names[i])
	}
	sb.WriteString("(check-sat)\n(echo \"<<done>>\")\n")
	io.WriteString(s.in, sb.String())
	res := s.readUntilDone()
	verdict := "unknown"
	for _, l := range res {
		if strings.Contains(l, "(error") {
			return "error: " + l, nil
		}
		if l == "sat" || l == "unsat" || l == "unknown" {
			verdict = l
		}
	}
	if verdict != "sat" || len(want) == 0 {
		return verdict, nil
	}
	var q strings.Builder
	q.WriteString("(get-value (")
	for i := range want {
		q.WriteString(names[len(roots)+i])
		q.WriteByte(' ')
	}
	q.WriteString("))\n(echo \"<<done>>\")\n")
	io.WriteString(s.in, q.String())
	lines := s.readUntilDone()
	model := map[string]string{}
	joined := strings.Join(lines, " ")
	// crude parse: ((name value) (name value) ...)
	for i, w := range want {
		n := names[len(roots)+i]
		idx := strings.Index(joined, "("+n+" ")
		if idx < 0 {
			continue
		}
		rest := joined[idx+len(n)+2:]
		depth := 0
		end := 0
		for j, c := range rest {
			if c == '(' {
				depth++
			}
			if c == ')' {
				if depth == 0 {
					end = j
					break
				}
				depth--
			}
		}
		model[w.Name] = strings.TrimSpace(rest[:end])
	}
	return verdict, model
}

func (s *Solver) readUntilDone() []string {
	var lines []string
	for {
		l, err := s.out.ReadString('\n')
		l = strings.TrimSpace(l)
		if l == "<<done>>" || err != nil {
			return lines
		}
		if l != "" {
			lines = append(lines, l)
		}
	}
}
