package main

import (
	"fmt"
	"os"
	"sort"
	"strings"
	"sync"
	"time"

	"golang.org/x/tools/go/ssa"
)

type RunCfg struct {
	StepBudget     int
	Workers        int
	SolverCmd      []string
	Tier           int
	Known          map[string]bool // open known findings
	Deadline       time.Time
	MaxPaths       int
	Witnesses      int
	exhaustiveLast bool
	xcheckEvery    int // one obligation in this many (by hash) is re-discharged by two other solvers; 0 = none
}

func (c *RunCfg) knownOpen(id string) bool { return c.Known[id] }

type Stats struct {
	Paths, Ended, Completed, Queries, Obligations, Unsat, Sat, Unknown int
	Steps                                                              int64
	Funcs, Stubs                                                       map[string]int
	Asserts, Reached, Panics, Forks                                    map[string]int
	SolverTime                                                         time.Duration
	XChecked, XOpinions                                                int      // obligations re-asked on z3 5.1 and cvc5; second opinions obtained ("unsat" too)
	XDisagree                                                          []string // second opinions contradicting the verdict (with the query)
}

func newStats() *Stats {
	return &Stats{Funcs: map[string]int{}, Stubs: map[string]int{}, Asserts: map[string]int{}, Reached: map[string]int{}, Panics: map[string]int{}, Forks: map[string]int{}}
}

func (s *Stats) merge(o *Stats) {
	s.Paths += o.Paths
	s.Ended += o.Ended
	s.Completed += o.Completed
	s.Queries += o.Queries
	s.Obligations += o.Obligations
	s.Unsat += o.Unsat
	s.Sat += o.Sat
	s.Unknown += o.Unknown
	s.Steps += o.Steps
	s.SolverTime += o.SolverTime
	s.XChecked += o.XChecked
	s.XOpinions += o.XOpinions
	s.XDisagree = append(s.XDisagree, o.XDisagree...)
	for k, v := range o.Funcs {
		s.Funcs[k] += v
	}
	for k, v := range o.Stubs {
		s.Stubs[k] += v
	}
	for k, v := range o.Asserts {
		s.Asserts[k] += v
	}
	for k, v := range o.Reached {
		s.Reached[k] += v
	}
	for k, v := range o.Panics {
		s.Panics[k] += v
	}
	for k, v := range o.Forks {
		s.Forks[k] += v
	}
}

type job struct {
	fn     *ssa.Function
	prefix []int
}

type HarnessResult struct {
	Name         string
	Stats        *Stats
	Violations   []Violation
	Witnesses    []Violation // models of completed paths, for native validation
	Inconclusive []string
	Wall         time.Duration
	witSig       map[string]bool
}

type Runner struct {
	prog *ssa.Program
	cfg  *RunCfg

	mu      sync.Mutex
	cond    *sync.Cond
	queue   []job
	busy    int
	results map[string]*HarnessResult
	stopped bool
}

func (r *Runner) Run(harnesses []*ssa.Function) map[string]*HarnessResult {
	r.results = map[string]*HarnessResult{}
	r.cond = sync.NewCond(&r.mu)
	for _, h := range harnesses {
		r.results[h.Name()] = &HarnessResult{Name: h.Name(), Stats: newStats()}
		r.queue = append(r.queue, job{fn: h})
	}
	var wg sync.WaitGroup
	for w := 0; w < r.cfg.Workers; w++ {
		wg.Add(1)
		go func() {
			defer wg.Done()
			r.worker()
		}()
	}
	wg.Wait()
	return r.results
}

func (r *Runner) worker() {
	solver := NewSolver(r.cfg.SolverCmd)
	defer solver.Close()
	tt := NewTermTable()
	n := 0
	for {
		r.mu.Lock()
		for len(r.queue) == 0 && r.busy > 0 && !r.stopped {
			r.cond.Wait()
		}
		if len(r.queue) == 0 || r.stopped {
			r.mu.Unlock()
			r.cond.Broadcast()
			return
		}
		j := r.queue[len(r.queue)-1]
		r.queue = r.queue[:len(r.queue)-1]
		r.busy++
		r.mu.Unlock()

		n++
		if n%200 == 0 { // bound the memory of the hash-consing table
			tt = NewTermTable()
		}
		solver.tt = tt
		t0 := time.Now()
		st, pending, viol, wit, inc := r.runPath(solver, tt, j)
		st.SolverTime = solver.takeTime()

		r.mu.Lock()
		hr := r.results[j.fn.Name()]
		hr.Stats.merge(st)
		hr.Wall += time.Since(t0)
		hr.Violations = append(hr.Violations, viol...)
		if wit != nil && len(hr.Witnesses) < r.cfg.Witnesses {
			// prefer witnesses of different shapes (distinct vf.Choice decisions)
			sig := fmt.Sprint(wit.Choices)
			if hr.witSig == nil {
				hr.witSig = map[string]bool{}
			}
			if !hr.witSig[sig] || os.Getenv("SYMGO_ALLWIT") != "" {
				hr.witSig[sig] = true
				hr.Witnesses = append(hr.Witnesses, *wit)
			}
		}
		for _, s := range inc {
			if len(hr.Inconclusive) < 20 {
				hr.Inconclusive = append(hr.Inconclusive, s)
			}
		}
		if time.Now().After(r.cfg.Deadline) {
			if !r.stopped {
				r.stopped = true
				hr.Inconclusive = append(hr.Inconclusive, "time budget exhausted with unexplored paths")
			}
		} else if hr.Stats.Paths > r.cfg.MaxPaths {
			hr.Inconclusive = append(hr.Inconclusive, "path budget exhausted (unwinding assertion)")
		} else {
			for _, p := range pending {
				r.queue = append(r.queue, job{fn: j.fn, prefix: p})
			}
		}
		r.busy--
		r.mu.Unlock()
		r.cond.Broadcast()
	}
}

// needWitness: a model of a completed path is only solved for while the harness still lacks witnesses
// (of this shape)
func (r *Runner) needWitness(h string, choices map[string]int) bool {
	r.mu.Lock()
	defer r.mu.Unlock()
	hr := r.results[h]
	if len(hr.Witnesses) >= r.cfg.Witnesses {
		return false
	}
	return !hr.witSig[fmt.Sprint(choices)] || os.Getenv("SYMGO_ALLWIT") != ""
}

func (r *Runner) runPath(solver *Solver, tt *TermTable, j job) (st *Stats, pending [][]int, viol []Violation, witness *Violation, inconclusive []string) {
	st = newStats()
	e := &Exec{prog: r.prog, tt: tt, solver: solver, globals: map[*ssa.Global]*Cell{}, prefix: j.prefix,
		st: st, choices: map[string]int{}, cfg: r.cfg, pcSet: map[*Term]bool{}, inSeen: map[string]bool{}, harness: j.fn.Name()}
	// package initialisers are deterministic and concrete: run them once per term table and give every
	// path its own deep copy of the resulting globals
	tInit := time.Now()
	if snap, _ := tt.snap.(map[*ssa.Global]*Cell); snap != nil {
		cl := newCloner()
		for g, c := range snap {
			e.globals[g] = cl.cell(c)
		}
	} else {
		e.lenient = true
		func() {
			defer func() {
				if rec := recover(); rec != nil {
					inconclusive = append(inconclusive, fmt.Sprintf("package init: %v", rec))
				}
			}()
			for _, p := range initOrder {
				if pkg := r.prog.ImportedPackage(p); pkg != nil {
					e.Call(pkg.Func("init"), nil, nil)
				}
			}
		}()
		e.lenient = false
		cl := newCloner()
		snap := map[*ssa.Global]*Cell{}
		for g, c := range e.globals {
			snap[g] = cl.cell(c)
		}
		tt.snap = snap
	}
	if os.Getenv("SYMGO_TIMING") != "" {
		logf("init: %v steps=%d", time.Since(tInit), e.steps)
	}
	e.steps = 0
	st.Funcs = map[string]int{}
	st.Stubs = map[string]int{}
	st.Paths = 1
	func() {
		defer func() {
			if rec := recover(); rec != nil {
				switch x := rec.(type) {
				case pathEnd:
					st.Ended++
				case goPanic:
					// a panic escaping the harness itself is a harness bug or an unguarded operation
					inconclusive = append(inconclusive, fmt.Sprintf("uncaught panic in harness: %s at %s trace=%v", x.String(), e.panicAt, e.trace))
				case abort:
					inconclusive = append(inconclusive, x.why)
				default:
					inconclusive = append(inconclusive, fmt.Sprintf("ENGINE PANIC %v in %v", rec, e.stack))
				}
				return
			}
			st.Completed++
			// witness: a model of this completed path, replayed natively as a validation of encoder and stubs
			if r.needWitness(j.fn.Name(), e.choices) {
				res, model := solver.Check(e.pc, e.inputs)
				st.Queries++
				if res == "sat" {
					ch := map[string]int{}
					for k, v := range e.choices {
						ch[k] = v
					}
					witness = &Violation{Harness: j.fn.Name(), Clause: "", Model: model, Trace: append([]int{}, e.trace...), Choices: ch}
				}
			}
		}()
		e.Call(j.fn, nil, nil)
	}()
	st.Steps = int64(e.steps)
	return st, e.pending, e.violations, witness, inconclusive
}

var initOrder = []string{
	"github.com/cosmos/cosmos-sdk/types",
	"github.com/irismod/service/types",
	"github.com/irismod/service/keeper",
	"github.com/irismod/service",
	"vh/h",
}

// staticClauses lists the clause names of vf.Assert/AssertKF calls reachable from a harness (static scan).
func staticClauses(fn *ssa.Function, seen map[*ssa.Function]bool, out map[string]bool) {
	if fn == nil || seen[fn] || fn.Blocks == nil {
		return
	}
	seen[fn] = true
	for _, b := range fn.Blocks {
		for _, ins := range b.Instrs {
			var cc *ssa.CallCommon
			switch x := ins.(type) {
			case *ssa.Call:
				cc = &x.Call
			case *ssa.Defer:
				cc = &x.Call
			case *ssa.MakeClosure:
				if f, ok := x.Fn.(*ssa.Function); ok {
					staticClauses(f, seen, out)
				}
				continue
			default:
				continue
			}
			callee := cc.StaticCallee()
			if callee == nil {
				continue
			}
			name := callee.String()
			if name == "vh/vf.Assert" || name == "vh/vf.AssertKF" {
				if c, ok := cc.Args[1].(*ssa.Const); ok {
					out[strings.Trim(c.Value.ExactString(), `"`)] = true
				}
				continue
			}
			if strings.HasPrefix(name, "vh/h.") || strings.HasPrefix(name, "vh/inv.") || strings.HasPrefix(name, "vh/st.") || strings.Contains(name, "vh/h.") {
				staticClauses(callee, seen, out)
			}
		}
	}
}

func sortedKeys(m map[string]int) []string {
	ks := make([]string, 0, len(m))
	for k := range m {
		ks = append(ks, k)
	}
	sort.Strings(ks)
	return ks
}

func logf(format string, a ...interface{}) { fmt.Fprintf(os.Stderr, format+"\n", a...) }
