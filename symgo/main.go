package main

import (
	"bufio"
	"bytes"
	"encoding/json"
	"flag"
	"fmt"
	"go/types"
	"os"
	"os/exec"
	"path/filepath"
	"regexp"
	"runtime"
	"runtime/pprof"
	"sort"
	"strconv"
	"strings"
	"time"

	"golang.org/x/tools/go/packages"
	"golang.org/x/tools/go/ssa"
	"golang.org/x/tools/go/ssa/ssautil"
)

type knownFinding struct {
	ID         string   `json:"id"`
	Properties []string `json:"properties"`
	Status     string   `json:"status"` // open | fixed
	Commit     string   `json:"commit,omitempty"`
	What       string   `json:"what"`
	Region     string   `json:"region,omitempty"`
}

func main() {
	var (
		verif    = flag.String("verif", "/verif", "verification directory")
		prop     = flag.String("prop", "", "property id (harness prefix), e.g. C18")
		tier     = flag.String("tier", "quick", "quick | thorough")
		only     = flag.String("only", "", "comma-separated harness names (overrides -prop selection)")
		solverN  = flag.String("solver", "z3", "z3 | z3-new | cvc5")
		workers  = flag.Int("workers", 0, "worker count (default: cores)")
		overlay  = flag.String("overlay", "", "virtual=real[,virtual=real] source overlays (mutant testing only)")
		noReplay = flag.Bool("noreplay", false, "do not replay natively (debugging)")
		budget   = flag.Duration("budget", 0, "time budget for exploration")
		verbose  = flag.Bool("v", false, "verbose")
		noEvid   = flag.Bool("noevidence", false, "do not write the evidence file")
		replayF  = flag.String("replay", "", "replay one counterexample file natively and exit")
		cpuProf  = flag.String("cpuprofile", "", "write a CPU profile")
		xcheck   = flag.Int("xcheck", -1, "re-discharge one obligation in N (by hash) on z3 5.1 and cvc5; 0 = none; default 16 (quick), 2 (thorough)")
		updBase  = flag.Bool("update-baseline", false, "record the assertions reached per harness as the reachability baseline (vacuity guard)")
	)
	flag.Parse()
	if *cpuProf != "" {
		f, _ := os.Create(*cpuProf)
		pprof.StartCPUProfile(f)
		defer pprof.StopCPUProfile()
	}
	t0 := time.Now()
	hdir := filepath.Join(*verif, "harness")
	if *replayF != "" {
		out, _ := nativeReplay(hdir, *replayF, *overlay)
		fmt.Print(out)
		if strings.Contains(out, "REPRODUCED") && !strings.Contains(out, "NOT-REPRODUCED") {
			os.Exit(1)
		}
		os.Exit(0)
	}
	seed := 0
	if s := os.Getenv("VERIF_SEED"); s != "" {
		seed, _ = strconv.Atoi(s)
	}
	cfg := &RunCfg{StepBudget: 20_000_000, Workers: *workers, Known: map[string]bool{}, MaxPaths: 400_000, exhaustiveLast: false}
	if cfg.Workers <= 0 {
		cfg.Workers = runtime.NumCPU()
	}
	switch *solverN {
	case "z3":
		cfg.SolverCmd = []string{"z3", "-in", "-t:1500"}
	case "z3-new":
		cfg.SolverCmd = []string{"z3-new", "-in", "-t:60000"}
	case "cvc5":
		cfg.SolverCmd = []string{"cvc5", "--incremental", "--produce-models", "--tlimit-per=60000", "--lang=smt2"}
	default:
		fatal(2, "unknown solver "+*solverN)
	}
	if *tier == "thorough" {
		cfg.Tier = 1
		cfg.Witnesses = 6
		cfg.Deadline = time.Now().Add(90 * time.Minute)
		cfg.xcheckEvery = 2
	} else {
		cfg.Witnesses = 2
		if n, err := strconv.Atoi(os.Getenv("SYMGO_ALLWIT")); err == nil && n > 0 {
			cfg.Witnesses = n // debugging aid: validate up to n witness paths per harness natively, whatever their shape
		}
		cfg.xcheckEvery = 16
		cfg.Deadline = time.Now().Add(8 * time.Minute)
	}
	if *budget > 0 {
		cfg.Deadline = time.Now().Add(*budget)
	}
	if *xcheck >= 0 {
		cfg.xcheckEvery = *xcheck
	}
	tierGlobal = cfg.Tier
	solverDeadline = cfg.Deadline.Add(30 * time.Second).Unix()

	// known findings
	var known []knownFinding
	if bz, err := os.ReadFile(filepath.Join(*verif, "known_findings.json")); err == nil {
		var kf struct {
			Findings []knownFinding `json:"findings"`
		}
		if err := json.Unmarshal(bz, &kf); err != nil {
			fatal(2, "known_findings.json: "+err.Error())
		}
		known = kf.Findings
		for _, k := range known {
			if k.Status == "open" {
				cfg.Known[k.ID] = true
			}
		}
	}

	// ---- load the real code (from /repo's working tree through the harness module's replace directive)
	pcfg := &packages.Config{Mode: packages.LoadAllSyntax, Dir: hdir,
		Env: append(os.Environ(), "GOFLAGS=-mod=mod", "GOPROXY=off", "GOSUMDB=off", "GOTOOLCHAIN=local")}
	if *overlay != "" {
		pcfg.Overlay = map[string][]byte{}
		for _, kv := range strings.Split(*overlay, ",") {
			p := strings.SplitN(kv, "=", 2)
			data, err := os.ReadFile(p[1])
			if err != nil {
				fatal(2, err.Error())
			}
			pcfg.Overlay[p[0]] = data
		}
	}
	pkgs, err := packages.Load(pcfg, "vh/h")
	if err != nil {
		fatal(2, "load: "+err.Error())
	}
	if packages.PrintErrors(pkgs) > 0 {
		fatal(2, "the code under check does not compile")
	}
	prog, _ := ssautil.AllPackages(pkgs, ssa.InstantiateGenerics)
	prog.Build()
	loadS := time.Since(t0).Seconds()
	errType = types.Universe.Lookup("error").Type()

	var hpkg *ssa.Package
	for _, p := range prog.AllPackages() {
		if p.Pkg.Path() == "vh/h" {
			hpkg = p
		}
	}
	var names []string
	wantOnly := map[string]bool{}
	for _, n := range strings.Split(*only, ",") {
		if n != "" {
			wantOnly[n] = true
		}
	}
	for n, m := range hpkg.Members {
		if _, ok := m.(*ssa.Function); !ok {
			continue
		}
		if len(wantOnly) > 0 {
			if wantOnly[n] {
				names = append(names, n)
			}
			continue
		}
		if strings.HasPrefix(n, *prop+"_") || (cfg.Tier == 1 && strings.HasPrefix(n, *prop+"T_")) {
			names = append(names, n)
		}
	}
	sort.Strings(names)
	if len(names) == 0 {
		fatal(2, "no harness for "+*prop)
	}
	var fns []*ssa.Function
	for _, n := range names {
		fns = append(fns, hpkg.Func(n))
	}

	r := &Runner{prog: prog, cfg: cfg}
	results := r.Run(fns)
	exploreS := time.Since(t0).Seconds() - loadS

	// ---- gather
	baseline := map[string][]string{}
	basePath := filepath.Join(hdir, "clauses.json")
	if bz, err := os.ReadFile(basePath); err == nil {
		json.Unmarshal(bz, &baseline)
	}
	newBase := map[string][]string{}
	outDir := filepath.Join(*verif, "out", *prop)
	os.RemoveAll(outDir)
	os.MkdirAll(outDir, 0o755)
	total := newStats()
	var inconclusive []string
	var viols, wits []Violation
	for _, n := range names {
		hr := results[n]
		total.merge(hr.Stats)
		for _, s := range hr.Inconclusive {
			inconclusive = append(inconclusive, n+": "+s)
		}
		for i, d := range hr.Stats.XDisagree {
			f := filepath.Join(outDir, fmt.Sprintf("solver_disagreement_%s_%d.smt2", n, i))
			os.WriteFile(f, []byte("; "+strings.Replace(d, "\n", "\n", 1)), 0o644)
			inconclusive = append(inconclusive, n+": SOLVER-DISAGREEMENT: "+strings.SplitN(d, "\n", 2)[0]+" (query in "+f+")")
		}
		// vacuity guards: every assertion written in the harness was reached on some feasible path,
		// and some path ran to the end
		for _, c := range baseline[n] {
			if hr.Stats.Asserts[n+"/"+c] == 0 && !*updBase {
				inconclusive = append(inconclusive, fmt.Sprintf("%s: assertion %q not reached on any feasible path (vacuous; it is reached on the reference tree)", n, c))
			}
		}
		if _, ok := baseline[n]; !ok && !*updBase {
			inconclusive = append(inconclusive, n+": no reachability baseline recorded for this harness (run symgo -update-baseline)")
		}
		var reached []string
		for k := range hr.Stats.Asserts {
			if strings.HasPrefix(k, n+"/") {
				reached = append(reached, strings.TrimPrefix(k, n+"/"))
			}
		}
		sort.Strings(reached)
		newBase[n] = reached
		if hr.Stats.Completed == 0 {
			inconclusive = append(inconclusive, n+": no path ran to completion (vacuous)")
		}
		viols = append(viols, hr.Violations...)
		wits = append(wits, hr.Witnesses...)
		if *verbose {
			logf("== %s: paths=%d completed=%d ended=%d queries=%d obligations=%d sat=%d wall=%.1fs", n, hr.Stats.Paths, hr.Stats.Completed, hr.Stats.Ended, hr.Stats.Queries, hr.Stats.Obligations, hr.Stats.Sat, hr.Wall.Seconds())
			type kv struct {
				k string
				v int
			}
			var fk []kv
			for k, v := range hr.Stats.Forks {
				fk = append(fk, kv{k, v})
			}
			sort.Slice(fk, func(i, j int) bool { return fk[i].v > fk[j].v })
			for i, f := range fk {
				if i < 25 {
					logf("   forks: %6d  %s", f.v, f.k)
				}
			}
			for _, k := range sortedKeys(hr.Stats.Panics) {
				logf("   panic observed: %s x%d", k, hr.Stats.Panics[k])
			}
		}
	}

	if *updBase {
		for k, v := range newBase {
			baseline[k] = v
		}
		js, _ := json.MarshalIndent(baseline, "", " ")
		os.WriteFile(basePath, js, 0o644)
	}

	// ---- group counterexamples: one representative per (harness, clause, finding)
	type group struct {
		v     Violation
		count int
		file  string
		alts  []Violation // further counterexamples of the same clause with other shapes (vf.Choice decisions)
		afile []string
		sigs  map[string]bool
	}
	groups := map[string]*group{}
	var gkeys []string
	for _, v := range viols {
		k := v.Harness + "|" + v.Clause + "|" + v.Finding
		if g, ok := groups[k]; ok {
			g.count++
			if sig := shapeSig(v); !g.sigs[sig] && len(g.alts) < 7 {
				g.sigs[sig] = true
				g.alts = append(g.alts, v)
			}
			continue
		}
		groups[k] = &group{v: v, count: 1, sigs: map[string]bool{shapeSig(v): true}}
		gkeys = append(gkeys, k)
	}
	sort.Strings(gkeys)
	var files []string
	for i, k := range gkeys {
		g := groups[k]
		g.file = filepath.Join(outDir, fmt.Sprintf("cex_%02d_%s_%s.json", i, g.v.Harness, sanitize(g.v.Clause)))
		js, _ := json.MarshalIndent(g.v, "", " ")
		os.WriteFile(g.file, js, 0o644)
		files = append(files, g.file)
		for a, av := range g.alts {
			af := filepath.Join(outDir, fmt.Sprintf("cex_%02d_%s_%s.alt%d.json", i, g.v.Harness, sanitize(g.v.Clause), a))
			js, _ := json.MarshalIndent(av, "", " ")
			os.WriteFile(af, js, 0o644)
			g.afile = append(g.afile, af)
			files = append(files, af)
		}
	}
	var witFiles []string
	for i, w := range wits {
		f := filepath.Join(outDir, fmt.Sprintf("wit_%02d_%s.json", i, w.Harness))
		js, _ := json.MarshalIndent(w, "", " ")
		os.WriteFile(f, js, 0o644)
		witFiles = append(witFiles, f)
	}

	// ---- native replay against the real keeper, store, codec and bank
	replayed, witnessOK := 0, 0
	status := map[string]string{}
	replayS := 0.0
	if !*noReplay && len(files)+len(witFiles) > 0 {
		tr := time.Now()
		writeRegistry(hdir, hpkg)
		out, _ := nativeReplay(hdir, outDir, *overlay)
		replayS = time.Since(tr).Seconds()
		sc := bufio.NewScanner(strings.NewReader(out))
		sc.Buffer(make([]byte, 1<<20), 1<<20)
		re := regexp.MustCompile(`REPLAY (\S+) (\S+)(.*)`)
		for sc.Scan() {
			if m := re.FindStringSubmatch(sc.Text()); m != nil {
				status[m[1]] = m[2] + m[3]
			}
		}
		for _, f := range append(append([]string{}, files...), witFiles...) {
			if _, ok := status[f]; !ok {
				status[f] = "NO-RESULT"
				if *verbose {
					logf("replay output:\n%s", out)
				}
			}
		}
	}

	// ---- verdict
	exit := 0
	var lines []string
	knownSeen := map[string]bool{}
	nViol := 0
	for _, k := range gkeys {
		g := groups[k]
		st := status[g.file]
		// a counterexample of another shape may reproduce where the first one does not (e.g. when the first
		// depends on the relative order of two bech32 strings, which the model does not share with real bech32)
		if !strings.HasPrefix(st, "REPRODUCED") {
			for _, af := range g.afile {
				if strings.HasPrefix(status[af], "REPRODUCED") {
					st, g.file = status[af], af
					break
				}
			}
		}
		switch {
		case *noReplay:
			lines = append(lines, fmt.Sprintf("COUNTEREXAMPLE (not replayed) harness=%s clause=%s finding=%s file=%s", g.v.Harness, g.v.Clause, g.v.Finding, g.file))
			if g.v.Finding == "" {
				nViol++
				exit = 1
			}
		case strings.HasPrefix(st, "REPRODUCED"):
			replayed++
			if g.v.Finding != "" {
				knownSeen[g.v.Finding] = true
			} else {
				nViol++
				lines = append(lines, fmt.Sprintf("VIOLATION property=%s replay=%s", *prop, g.file))
				lines = append(lines, fmt.Sprintf("  harness=%s clause=%s (%d paths)", g.v.Harness, g.v.Clause, g.count))
				exit = 1
			}
		default:
			inconclusive = append(inconclusive, fmt.Sprintf("ENCODING-MISMATCH: counterexample %s (%s/%s) did not reproduce natively: %s", g.file, g.v.Harness, g.v.Clause, st))
		}
	}
	for _, f := range witFiles {
		if strings.HasPrefix(status[f], "WITNESS-OK") {
			witnessOK++
		} else if !*noReplay {
			inconclusive = append(inconclusive, fmt.Sprintf("ENCODING-MISMATCH: witness %s does not run natively as modelled: %s inputs=%s", f, status[f], compactInputs(f)))
		}
	}
	for _, kf := range known {
		if kf.Status == "open" && knownSeen[kf.ID] {
			lines = append(lines, fmt.Sprintf("KNOWN-FINDING: property=%s %s %s", *prop, kf.ID, kf.What))
		}
	}
	// an unknown answer to a *feasibility* query keeps the branch (more paths, never fewer): it does not weaken
	// a "holds" verdict; an unknown answer to an *obligation* aborts that path and is reported above
	_ = total.Unknown
	if len(inconclusive) > 0 && exit == 0 {
		exit = 2
	}
	for _, l := range lines {
		fmt.Println(l)
	}
	for _, s := range inconclusive {
		fmt.Println("INCONCLUSIVE:", s)
	}

	// ---- evidence
	wall := time.Since(t0).Seconds()
	var fnNames []string
	own := 0
	for _, k := range sortedKeys(total.Funcs) {
		if strings.Contains(k, "irismod/service") {
			own++
			fnNames = append(fnNames, k)
		}
	}
	var samples []interface{}
	for i, w := range wits {
		if i >= 2 {
			break
		}
		samples = append(samples, map[string]interface{}{"kind": "witness path (model of a completed path, replayed natively)", "harness": w.Harness, "choices": w.Choices, "inputs": trimModel(w.Model, 12)})
	}
	for i, k := range gkeys {
		if i >= 3 {
			break
		}
		g := groups[k]
		samples = append(samples, map[string]interface{}{"kind": "counterexample", "harness": g.v.Harness, "clause": g.v.Clause, "finding": g.v.Finding, "replay": status[g.file], "inputs": trimModel(g.v.Model, 12)})
	}
	for i, k := range sortedKeys(total.Asserts) {
		if i >= 8 {
			break
		}
		samples = append(samples, map[string]interface{}{"kind": "obligation", "assert": k, "paths_reaching": total.Asserts[k]})
	}
	if len(samples) == 0 {
		samples = append(samples, map[string]interface{}{"kind": "none"})
	}
	ev := map[string]interface{}{
		"property_id": *prop, "tier": *tier, "seed": seed, "level": "model_checking", "wall_s": wall, "violations": nViol,
		"coverage": map[string]interface{}{
			"states":                        total.Paths,
			"transitions":                   total.Queries,
			"traces_validated_against_impl": replayed + witnessOK,
			"samples":                       samples,
			"harnesses":                     names,
			"feasible_paths":                total.Paths,
			"paths_completed":               total.Completed,
			"paths_cut_by_assumption":       total.Ended,
			"obligations":                   total.Obligations,
			"obligations_unsat":             total.Unsat,
			"obligations_sat":               total.Sat,
			"solver_unknown":                total.Unknown,
			"cross_checked_obligations":     total.XChecked,
			"cross_check_second_opinions":   total.XOpinions,
			"cross_check_disagreements":     len(total.XDisagree),
			"cross_check_solvers":           "z3-new -in -t:3000; cvc5 --incremental --tlimit-per=3000 (sample: one distinct obligation in " + fmt.Sprint(cfg.xcheckEvery) + " by hash)",
			"solver_queries":                total.Queries,
			"solver":                        strings.Join(cfg.SolverCmd, " "),
			"solver_s":                      total.SolverTime.Seconds(),
			"load_ssa_s":                    loadS,
			"explore_s":                     exploreS,
			"native_replay_s":               replayS,
			"ssa_instructions_executed":     total.Steps,
			"module_functions_encoded":      fnNames,
			"functions_executed_from_ssa":   len(total.Funcs),
			"stubs_hit":                     sortedKeys(total.Stubs),
			"assertions_reached":            total.Asserts,
			"panics_observed":               total.Panics,
			"counterexamples":               len(gkeys),
			"known_findings_confirmed":      keysOf(knownSeen),
			"inconclusive":                  inconclusive,
			"bounds":                        boundsText(*tier),
			"bounds_per_harness":            harnessBounds(hdir, names),
			"exhaustive":                    false,
		},
		"assumptions": assumptions,
	}
	if !*noEvid {
		js, _ := json.MarshalIndent(ev, "", " ")
		os.MkdirAll(filepath.Join(*verif, "evidence"), 0o755)
		os.WriteFile(filepath.Join(*verif, "evidence", *prop+".json"), js, 0o644)
	}
	fmt.Printf("%s %s: harnesses=%d paths=%d obligations=%d (unsat=%d sat=%d) queries=%d solver=%.1fs xcheck=%d/%d/%d native-validated=%d wall=%.1fs exit=%d\n",
		*prop, *tier, len(names), total.Paths, total.Obligations, total.Unsat, total.Sat, total.Queries, total.SolverTime.Seconds(), total.XChecked, total.XOpinions, len(total.XDisagree), replayed+witnessOK, wall, exit)
	pprof.StopCPUProfile()
	os.Exit(exit)
}

var tierGlobal int

var assumptions = []string{
	"stub contracts of DESIGN.md section 4: KV store = finite map with ascending snapshot iterators; codec = round-trip identity up to nil/empty normalisation; bank = fails iff coins invalid or balance insufficient, no vesting locks; params = any values accepted by Params.Validate; sdk.Int/Dec = exact integers (18-digit half-even Mul, truncating TruncateInt); the 255-bit / 315-bit overflow panic is modelled in the harnesses named *Huge and C20_RangeModel (message amounts free up to 2^255, state amounts below 2^127) and outside the claim elsewhere; a time outside years 1..9999 fails to marshal",
	"bech32 modelled as an injective NUL-free lower-case encoding; user addresses differ from module-account addresses",
	"time.Time = integer nanoseconds in years 1..9999 (promotion times of a message's pricing text from year 0000); heights and timeouts below 2^40..2^62 (no wrap of h+t); the arbitration and complaint periods any positive int64",
	"pricing texts: integer base-denomination price, promotions as allowed by the pricing JSON schema; other denominations (exchange-rate branch) outside the claim",
	"bounds on list lengths and record counts as stated per harness (see bounds)",
}

func boundsText(tier string) string {
	if tier == "thorough" {
		return "thorough tier: see DESIGN.md sections 6, 16 and 18 (contexts<=3, providers per context<=3, promotions<=2/3); loops unroll on concrete lengths; step budget 2e7 instructions/path and path budget act as unwinding assertions"
	}
	return "quick tier: see DESIGN.md sections 6, 16 and 18 (contexts<=2, providers per context<=2, promotions<=1/2); loops unroll on concrete lengths; step budget 2e7 instructions/path and path budget act as unwinding assertions"
}

// harnessBounds gives the stated bound of each harness run (harness/bounds.json, keyed by name pattern)
func harnessBounds(hdir string, names []string) map[string]string {
	out := map[string]string{}
	pats := map[string]string{}
	if bz, err := os.ReadFile(filepath.Join(hdir, "bounds.json")); err == nil {
		json.Unmarshal(bz, &pats)
	}
	for _, n := range names {
		for p, txt := range pats {
			if ok, _ := regexp.MatchString(p, n); ok {
				out[n] = txt
			}
		}
	}
	return out
}

func trimModel(m map[string]string, n int) map[string]string {
	out := map[string]string{}
	ks := make([]string, 0, len(m))
	for k := range m {
		ks = append(ks, k)
	}
	sort.Strings(ks)
	for _, k := range ks {
		if strings.Contains(k, "[") { // skip individual bytes
			continue
		}
		if len(out) >= n {
			break
		}
		out[k] = m[k]
	}
	return out
}

// shapeSig: the shape of a counterexample = its vf.Choice decisions and the values of its boolean inputs
func shapeSig(v Violation) string {
	var bs []string
	for k, val := range v.Model {
		if val == "true" || val == "false" {
			bs = append(bs, k+"="+val)
		}
	}
	sort.Strings(bs)
	return fmt.Sprint(v.Choices) + strings.Join(bs, ",")
}

func keysOf(m map[string]bool) []string {
	ks := []string{}
	for k := range m {
		ks = append(ks, k)
	}
	sort.Strings(ks)
	return ks
}

func sanitize(s string) string {
	return regexp.MustCompile(`[^A-Za-z0-9_.-]`).ReplaceAllString(s, "_")
}

func fatal(code int, msg string) {
	fmt.Println("INCONCLUSIVE:", msg)
	os.Exit(code)
}

// writeRegistry generates the name->function table used by the native replay test.
func writeRegistry(hdir string, hpkg *ssa.Package) {
	var names []string
	for n, m := range hpkg.Members {
		if f, ok := m.(*ssa.Function); ok && regexp.MustCompile(`^C\d\dT?_`).MatchString(n) && f.Signature.Params().Len() == 0 {
			names = append(names, n)
		}
	}
	sort.Strings(names)
	var sb strings.Builder
	sb.WriteString("// Code generated by symgo; DO NOT EDIT.\npackage h\n\nvar Harnesses = map[string]func(){\n")
	for _, n := range names {
		fmt.Fprintf(&sb, "\t%q: %s,\n", n, n)
	}
	sb.WriteString("}\n")
	p := filepath.Join(hdir, "h", "zz_registry.go")
	if old, err := os.ReadFile(p); err == nil && string(old) == sb.String() {
		return
	}
	os.WriteFile(p, []byte(sb.String()), 0o644)
}

func nativeReplay(hdir, target, overlay string) (string, error) {
	args := []string{"test", "-vet=off", "-count=1", "-timeout", "20m", "-run", "TestReplay", "-v"}
	if overlay != "" {
		// build an overlay json for go test
		repl := map[string]string{}
		for _, kv := range strings.Split(overlay, ",") {
			p := strings.SplitN(kv, "=", 2)
			repl[p[0]] = p[1]
		}
		js, _ := json.Marshal(map[string]interface{}{"Replace": repl})
		f, _ := os.CreateTemp("", "ov*.json")
		f.Write(js)
		f.Close()
		defer os.Remove(f.Name())
		args = append(args, "-overlay", f.Name())
	}
	args = append(args, "./h")
	cmd := exec.Command("go", args...)
	cmd.Dir = hdir
	cmd.Env = append(os.Environ(), "GOFLAGS=-mod=mod", "GOPROXY=off", "GOSUMDB=off", "GOTOOLCHAIN=local", "VF_REPLAY="+target)
	var buf bytes.Buffer
	cmd.Stdout = &buf
	cmd.Stderr = &buf
	err := cmd.Run()
	return buf.String(), err
}

// compactInputs: the scalar inputs and choices of a witness / counterexample file, for the log (byte arrays left out)
func compactInputs(file string) string {
	bz, err := os.ReadFile(file)
	if err != nil {
		return ""
	}
	var r struct {
		Inputs  map[string]string `json:"inputs"`
		Choices map[string]int    `json:"choices"`
	}
	if json.Unmarshal(bz, &r) != nil {
		return ""
	}
	var ks []string
	for k := range r.Inputs {
		if !strings.Contains(k, "[") && !strings.HasPrefix(k, "bal.auto") {
			ks = append(ks, k)
		}
	}
	sort.Strings(ks)
	var sb strings.Builder
	for _, k := range ks {
		fmt.Fprintf(&sb, "%s=%s ", k, r.Inputs[k])
	}
	fmt.Fprintf(&sb, "choices=%v", r.Choices)
	return sb.String()
}
