module symgo

go 1.23

require (
	github.com/xeipuuv/gojsonschema v1.2.0
	golang.org/x/tools v0.29.0
)

require (
	github.com/xeipuuv/gojsonpointer v0.0.0-20180127040702-4e3ac2762d5f // indirect
	github.com/xeipuuv/gojsonreference v0.0.0-20180127040603-bd5ef7bd5415 // indirect
	golang.org/x/mod v0.22.0 // indirect
	golang.org/x/sync v0.10.0 // indirect
)
