package main

import (
	"encoding/hex"
	"encoding/json"
	"fmt"
	"go/types"
	"reflect"
	"regexp"
	"strconv"
	"strings"

	"github.com/xeipuuv/gojsonschema"
	"golang.org/x/tools/go/ssa"
)

// PricingAtt is the structured value carried by a pricing text.
type PricingAtt struct {
	Valid    *Term // nil: accepted by the pricing schema by construction; else the condition under which it is
	Price    *Term // Int >= 0, amount in the price's denomination (PriceDec: numerator at 1e18 of a decimal amount)
	Denom    string
	PriceDec bool // the text writes the price with a decimal point ("12.5stake")
	ByTime   []PromoT
	ByVol    []PromoV
}
type PromoT struct {
	Start, End TimeVal
	Disc       *Term // Int numerator at 1e18, in (0, 1e18)
}
type PromoV struct {
	Vol  *Term // BV64 >= 1
	Disc *Term
}
type PriceAtt struct {
	Amount *Term
	Denom  string
	Dec    bool
}
type AddrAtt struct{ Bytes []*Term }
type HexAtt struct{ Bytes []*Term }
type JSONAtt struct{ V Value }

func (e *Exec) concreteOf(v Value) (string, bool) {
	switch x := v.(type) {
	case StrVal:
		return concreteString(x)
	case SliceVal:
		return concreteString(StrVal{B: e.bytesOf(x)})
	}
	return "", false
}

// hexChar builds the character for a 4-bit nibble term (upper or lower case)
func (e *Exec) hexChar(n *Term, upper bool) *Term {
	a := uint64('a')
	if upper {
		a = 'A'
	}
	lt10 := e.tt.BVCmp("bvult", n, e.tt.BV(8, 10))
	return e.tt.Ite(lt10, e.tt.BVBin("bvadd", n, e.tt.BV(8, '0'), false), e.tt.BVBin("bvadd", n, e.tt.BV(8, a-10), false))
}

func (e *Exec) hexEncode(b []*Term, upper bool) StrVal {
	out := make([]*Term, 0, 2*len(b))
	for _, t := range b {
		hi := e.tt.BVBin("bvlshr", t, e.tt.BV(8, 4), false)
		lo := e.tt.BVBin("bvand", t, e.tt.BV(8, 15), false)
		out = append(out, e.hexChar(hi, upper), e.hexChar(lo, upper))
	}
	return StrVal{B: out, Att: HexAtt{Bytes: b}}
}

// bech32 surrogate: "cosmos1" + two characters in 'a'..'p' per byte (injective, NUL-free, lower case)
func (e *Exec) bech32(b []*Term) StrVal {
	if len(b) == 0 {
		return StrVal{}
	}
	out := append([]*Term{}, e.constStr("cosmos1").B...)
	for _, t := range b {
		hi := e.tt.BVBin("bvlshr", t, e.tt.BV(8, 4), false)
		lo := e.tt.BVBin("bvand", t, e.tt.BV(8, 15), false)
		out = append(out, e.tt.BVBin("bvadd", hi, e.tt.BV(8, 'a'), false), e.tt.BVBin("bvadd", lo, e.tt.BV(8, 'a'), false))
	}
	return StrVal{B: out, Att: AddrAtt{Bytes: b}}
}

// sprintf: concrete format, %s %v %d %X %x %q %T verbs on strings / terms
func (e *Exec) sprintf(format string, args []Value) StrVal {
	var out []*Term
	ai := 0
	lit := func(s string) { out = append(out, e.constStr(s).B...) }
	for i := 0; i < len(format); i++ {
		c := format[i]
		if c != '%' || i+1 >= len(format) {
			out = append(out, e.tt.BV(8, uint64(c)))
			continue
		}
		i++
		verb := format[i]
		if verb == '%' {
			lit("%")
			continue
		}
		if ai >= len(args) {
			lit("%!" + string(verb) + "(MISSING)")
			continue
		}
		arg := args[ai]
		ai++
		if iv, ok := arg.(IfaceVal); ok {
			arg = iv.V
			if iv.T == nil {
				lit("<nil>")
				continue
			}
		}
		switch x := arg.(type) {
		case StrVal:
			out = append(out, x.B...)
		case *Term:
			if x.IsConst() {
				if x.Sort == SBool {
					lit(strconv.FormatBool(x.U != 0))
				} else {
					lit(strconv.FormatInt(signed(x.U, x.Sort.Bits()), 10))
				}
			} else {
				lit("<n>")
			}
		case SliceVal:
			if verb == 'X' || verb == 'x' {
				out = append(out, e.hexEncode(e.bytesOf(x), verb == 'X').B...)
			} else {
				lit("<slice>")
			}
		case ModelVal:
			lit("<" + x.Kind + ":" + x.Tag + ">")
		default:
			lit(fmt.Sprintf("<%T>", arg))
		}
	}
	return StrVal{B: out}
}

func (e *Exec) variadic(v Value) []Value {
	s, ok := v.(SliceVal)
	if !ok {
		return nil
	}
	return s.elems()
}

type schemaResult struct {
	valid bool
	errs  []string
}

func runSchema(schema, doc string) (*schemaResult, error) {
	res, err := gojsonschema.Validate(gojsonschema.NewBytesLoader([]byte(schema)), gojsonschema.NewStringLoader(doc))
	if err != nil {
		return nil, err
	}
	r := &schemaResult{valid: res.Valid()}
	for _, e := range res.Errors() {
		r.errs = append(r.errs, e.String())
	}
	return r, nil
}

var reKnown = map[string]*regexp.Regexp{}

func init() {
	// ---- errors / fmt
	regFn("github.com/cosmos/cosmos-sdk/types/errors.Register", func(e *Exec, fn *ssa.Function, a []Value) Value {
		code := a[1].(*Term)
		space, _ := concreteString(a[0].(StrVal))
		return PtrVal{Root: &Cell{V: ModelVal{Kind: "err", Tag: fmt.Sprintf("%s-%d", space, code.U)}}}
	})
	wrap := func(e *Exec, a []Value) Value {
		in := a[0].(IfaceVal)
		if in.T == nil {
			return IfaceVal{}
		}
		tag := "wrapped"
		switch x := in.V.(type) {
		case ModelVal:
			tag = x.Tag
		case PtrVal:
			if x.Root != nil {
				if m, ok := x.Root.V.(ModelVal); ok {
					tag = m.Tag
				}
			}
		}
		return e.errVal(tag)
	}
	reg("github.com/cosmos/cosmos-sdk/types/errors.Wrap", wrap)
	reg("github.com/cosmos/cosmos-sdk/types/errors.Wrapf", wrap)
	reg("errors.New", func(e *Exec, a []Value) Value { return e.errVal("errors.New") })
	reg("fmt.Errorf", func(e *Exec, a []Value) Value { return e.errVal("fmt.Errorf") })
	reg("google.golang.org/grpc/status.Errorf", func(e *Exec, a []Value) Value { return e.errVal("grpc-status") })
	reg("google.golang.org/grpc/status.Error", func(e *Exec, a []Value) Value { return e.errVal("grpc-status") })
	modelMethods["err.Error"] = func(e *Exec, r ModelVal, a []Value) Value { return e.constStr("<error:" + r.Tag + ">") }
	reg("(*github.com/cosmos/cosmos-sdk/types/errors.Error).Error", func(e *Exec, a []Value) Value { return e.constStr("<error>") })
	reg("fmt.Sprintf", func(e *Exec, a []Value) Value {
		f, ok := concreteString(a[0].(StrVal))
		if !ok {
			return e.constStr("<fmt>")
		}
		return e.sprintf(f, e.variadic(a[1]))
	})
	reg("fmt.Sprint", func(e *Exec, a []Value) Value { return e.constStr("<fmt>") })

	// ---- addresses, hex
	reg("("+sdkT+"AccAddress).String", func(e *Exec, a []Value) Value { return e.bech32(e.bytesOf(a[0])) })
	reg(sdkT+"AccAddressFromBech32", func(e *Exec, a []Value) Value {
		s := a[0].(StrVal)
		if at, ok := s.Att.(AddrAtt); ok {
			return TupleVal{e.mkByteSlice(append([]*Term{}, at.Bytes...)), IfaceVal{}}
		}
		if len(s.B) == 0 {
			return TupleVal{SliceVal{}, e.errVal("empty address string is not allowed")}
		}
		// surrogate text without attachment (e.g. parsed back out of a store key)
		pre := e.constStr("cosmos1").B
		if len(s.B) > len(pre) && (len(s.B)-len(pre))%2 == 0 {
			if v, ok := e.known(e.strEq(s.B[:len(pre)], pre)); ok && v {
				body := s.B[len(pre):]
				out := make([]*Term, len(body)/2)
				for i := range out {
					hi := e.tt.BVBin("bvsub", body[2*i], e.tt.BV(8, 'a'), false)
					lo := e.tt.BVBin("bvsub", body[2*i+1], e.tt.BV(8, 'a'), false)
					out[i] = e.tt.BVBin("bvor", e.tt.BVBin("bvshl", hi, e.tt.BV(8, 4), false), lo, false)
				}
				return TupleVal{e.mkByteSlice(out), IfaceVal{}}
			}
		}
		return TupleVal{SliceVal{}, e.errVal("decoding bech32 failed")}
	})
	reg("(github.com/tendermint/tendermint/libs/bytes.HexBytes).String", func(e *Exec, a []Value) Value {
		return e.hexEncode(e.bytesOf(a[0]), true)
	})
	reg("encoding/hex.EncodeToString", func(e *Exec, a []Value) Value { return e.hexEncode(e.bytesOf(a[0]), false) })
	reg("encoding/hex.DecodeString", func(e *Exec, a []Value) Value {
		s := a[0].(StrVal)
		if at, ok := s.Att.(HexAtt); ok {
			return TupleVal{e.mkByteSlice(append([]*Term{}, at.Bytes...)), IfaceVal{}}
		}
		if _, ok := s.Att.(AddrAtt); ok {
			// bech32 text is never valid hex: 'cosmos1...' contains 'o','s','m'
			return TupleVal{SliceVal{}, e.errVal("hex: invalid byte")}
		}
		c, ok := concreteString(s)
		if !ok {
			panic(abort{"hex.DecodeString on symbolic text"})
		}
		b, err := hex.DecodeString(c)
		if err != nil {
			return TupleVal{e.mkByteSlice(e.constBytes(b)), e.errVal("hex")}
		}
		return TupleVal{e.mkByteSlice(e.constBytes(b)), IfaceVal{}}
	})

	// ---- bytes / strings with assembly or unsafe inside
	reg("bytes.Equal", func(e *Exec, a []Value) Value { return e.strEq(e.bytesOf(a[0]), e.bytesOf(a[1])) })
	reg("bytes.Compare", func(e *Exec, a []Value) Value {
		x, y := e.bytesOf(a[0]), e.bytesOf(a[1])
		if e.branch(e.strEq(x, y)) {
			return e.tt.BV(64, 0)
		}
		if e.branch(e.lexLess(x, y)) {
			return e.tt.BV(64, ^uint64(0))
		}
		return e.tt.BV(64, 1)
	})
	index := func(e *Exec, h, n []*Term) Value {
		for i := 0; i+len(n) <= len(h); i++ {
			if e.branch(e.strEq(h[i:i+len(n)], n)) {
				return e.tt.BV(64, uint64(i))
			}
		}
		return e.tt.BV(64, ^uint64(0))
	}
	reg("bytes.Index", func(e *Exec, a []Value) Value { return index(e, e.bytesOf(a[0]), e.bytesOf(a[1])) })
	reg("strings.Index", func(e *Exec, a []Value) Value { return index(e, e.bytesOf(a[0]), e.bytesOf(a[1])) })
	countByte := func(e *Exec, b []*Term, c *Term) Value {
		n := e.tt.BV(64, 0)
		for _, x := range b {
			n = e.tt.BVBin("bvadd", n, e.tt.Ite(e.tt.Eq(x, c), e.tt.BV(64, 1), e.tt.BV(64, 0)), false)
		}
		return n
	}
	reg("internal/bytealg.Count", func(e *Exec, a []Value) Value { return countByte(e, e.bytesOf(a[0]), a[1].(*Term)) })
	reg("internal/bytealg.CountString", func(e *Exec, a []Value) Value { return countByte(e, a[0].(StrVal).B, a[1].(*Term)) })
	reg("bytes.IndexByte", func(e *Exec, a []Value) Value { return index(e, e.bytesOf(a[0]), []*Term{a[1].(*Term)}) })
	reg("strings.IndexByte", func(e *Exec, a []Value) Value { return index(e, e.bytesOf(a[0]), []*Term{a[1].(*Term)}) })
	reg("strings.Contains", func(e *Exec, a []Value) Value {
		r := index(e, e.bytesOf(a[0]), e.bytesOf(a[1])).(*Term)
		return e.tt.Bool(r.U != ^uint64(0))
	})
	reg("strings.Compare", func(e *Exec, a []Value) Value {
		x, y := e.bytesOf(a[0]), e.bytesOf(a[1])
		if e.branch(e.strEq(x, y)) {
			return e.tt.BV(64, 0)
		}
		if e.branch(e.lexLess(x, y)) {
			return e.tt.BV(64, ^uint64(0))
		}
		return e.tt.BV(64, 1)
	})
	regFn("strings.Split", func(e *Exec, fn *ssa.Function, a []Value) Value {
		s, sep := e.bytesOf(a[0]), e.bytesOf(a[1])
		if len(sep) == 0 {
			panic(abort{"strings.Split with empty separator"})
		}
		var parts []Value
		start := 0
		for i := 0; i+len(sep) <= len(s); {
			if e.branch(e.strEq(s[i:i+len(sep)], sep)) {
				parts = append(parts, StrVal{B: s[start:i]})
				i += len(sep)
				start = i
			} else {
				i++
			}
		}
		parts = append(parts, StrVal{B: s[start:]})
		return SliceVal{Arr: &Cell{V: &ArrayVal{Elems: parts}}, Len: len(parts), Cap: len(parts)}
	})
	reg("strings.Join", func(e *Exec, a []Value) Value {
		var out []*Term
		sep := e.bytesOf(a[1])
		for i, p := range a[0].(SliceVal).elems() {
			if i > 0 {
				out = append(out, sep...)
			}
			out = append(out, p.(StrVal).B...)
		}
		return StrVal{B: out}
	})
	reg("strings.ToLower", func(e *Exec, a []Value) Value {
		s := a[0].(StrVal)
		out := make([]*Term, len(s.B))
		for i, t := range s.B {
			if t.IsConst() {
				c := t.U
				if c >= 'A' && c <= 'Z' {
					c += 'a' - 'A'
				}
				out[i] = e.tt.BV(8, c)
				continue
			}
			up := e.tt.And(e.tt.BVCmp("bvule", e.tt.BV(8, 'A'), t), e.tt.BVCmp("bvule", t, e.tt.BV(8, 'Z')))
			out[i] = e.tt.Ite(up, e.tt.BVBin("bvadd", t, e.tt.BV(8, 32), false), t)
		}
		return StrVal{B: out}
	})
	reg("strings.TrimSpace", func(e *Exec, a []Value) Value {
		c, ok := concreteString(a[0].(StrVal))
		if !ok {
			panic(abort{"strings.TrimSpace on symbolic text"})
		}
		return e.constStr(strings.TrimSpace(c))
	})

	// ---- regexp
	reg("regexp.MustCompile", func(e *Exec, a []Value) Value {
		p := e.strArg(a[0])
		return PtrVal{Root: &Cell{V: ModelVal{Kind: "regexp", Tag: p}}}
	})
	reg("(*regexp.Regexp).MatchString", func(e *Exec, a []Value) Value {
		pv := a[0].(PtrVal)
		if pv.Root == nil {
			panic(abort{"regexp: pattern unknown (package init not executed?)"})
		}
		pat := pv.Root.V.(ModelVal).Tag
		s := a[1].(StrVal)
		if c, ok := concreteString(s); ok {
			re, ok := reKnown[pat]
			if !ok {
				re = regexp.MustCompile(pat)
			}
			return e.tt.Bool(re.MatchString(c))
		}
		if pat != `^[a-zA-Z][a-zA-Z0-9_-]*$` {
			panic(abort{"regexp on symbolic text: " + pat})
		}
		in := func(t *Term, lo, hi byte) *Term {
			return e.tt.And(e.tt.BVCmp("bvule", e.tt.BV(8, uint64(lo)), t), e.tt.BVCmp("bvule", t, e.tt.BV(8, uint64(hi))))
		}
		if len(s.B) == 0 {
			return e.tt.Bool(false)
		}
		alpha := func(t *Term) *Term { return e.tt.Or(in(t, 'a', 'z'), in(t, 'A', 'Z')) }
		r := alpha(s.B[0])
		for _, t := range s.B[1:] {
			ok := e.tt.Or(e.tt.Or(alpha(t), in(t, '0', '9')), e.tt.Or(e.tt.Eq(t, e.tt.BV(8, '_')), e.tt.Eq(t, e.tt.BV(8, '-'))))
			r = e.tt.And(r, ok)
		}
		return r
	})

	// ---- gjson on concrete documents (result codes): Get(json, path) and Result.String
	reg("github.com/tidwall/gjson.Get", func(e *Exec, a []Value) Value {
		doc, ok1 := concreteString(a[0].(StrVal))
		path, ok2 := concreteString(a[1].(StrVal))
		if !ok1 || !ok2 {
			panic(abort{"gjson.Get on symbolic text"})
		}
		var cur interface{}
		dec := json.NewDecoder(strings.NewReader(doc))
		dec.UseNumber()
		out := ""
		if err := dec.Decode(&cur); err == nil {
			for _, seg := range strings.Split(path, ".") {
				m, isMap := cur.(map[string]interface{})
				if !isMap {
					cur = nil
					break
				}
				cur = m[seg]
			}
			switch x := cur.(type) {
			case string:
				out = x
			case json.Number:
				out = x.String()
			case bool:
				out = strconv.FormatBool(x)
			case nil:
				out = ""
			default:
				bz, _ := json.Marshal(x)
				out = string(bz)
			}
		}
		return ModelVal{Kind: "gjson", Tag: out}
	})
	modelMethods["gjson.String"] = func(e *Exec, r ModelVal, a []Value) Value { return e.constStr(r.Tag) }
	reg("(github.com/tidwall/gjson.Result).String", func(e *Exec, a []Value) Value { return e.constStr(a[0].(ModelVal).Tag) })

	// ---- JSON
	reg("encoding/json.Valid", func(e *Exec, a []Value) Value {
		sv := a[0].(SliceVal)
		if _, ok := sv.Att.(*PricingAtt); ok {
			return e.tt.Bool(true)
		}
		c, ok := e.concreteOf(a[0])
		if !ok {
			panic(abort{"json.Valid on symbolic bytes"})
		}
		return e.tt.Bool(json.Valid([]byte(c)))
	})
	reg("encoding/json.Marshal", func(e *Exec, a []Value) Value {
		v := a[0].(IfaceVal)
		r := e.mkByteSlice(e.constStr("<json>").B)
		r.Att = JSONAtt{V: copyValue(v.V)}
		if mr, ok := v.V.(MapRef); ok { // map[string]interface{} decoded from concrete JSON
			if mr.M == nil {
				r = e.mkByteSlice(e.constStr("null").B)
			} else if len(mr.M.Entries) == 1 {
				if raw, ok := mr.M.Entries[0].V.(IfaceVal); ok {
					r = e.mkByteSlice(raw.V.(StrVal).B)
				}
			}
		}
		if s, ok := v.V.(StrVal); ok { // json.Marshal(string): quoted text
			if c, ok := concreteString(s); ok {
				bz, _ := json.Marshal(c)
				r = e.mkByteSlice(e.constBytes(bz))
			}
		}
		return TupleVal{r, IfaceVal{}}
	})
	reg("encoding/json.Unmarshal", func(e *Exec, a []Value) Value {
		data := a[0].(SliceVal)
		target := a[1].(IfaceVal)
		ptr := target.V.(PtrVal)
		elemT := target.T.(*types.Pointer).Elem()
		if at, ok := data.Att.(*PricingAtt); ok {
			if !strings.HasSuffix(elemT.String(), "types.RawPricing") {
				panic(abort{"pricing text unmarshalled into " + elemT.String()})
			}
			ptr.store(e.rawPricing(at))
			return IfaceVal{}
		}
		c, ok := e.concreteOf(data)
		if !ok {
			panic(abort{"json.Unmarshal on symbolic bytes"})
		}
		if strings.HasSuffix(elemT.String(), "types.RawPricing") {
			at, err := e.parsePricingText(c)
			if err != "" {
				return e.errVal("json: " + err)
			}
			ptr.store(e.rawPricing(at))
			return IfaceVal{}
		}
		var generic interface{}
		if err := json.Unmarshal([]byte(c), &generic); err != nil {
			return e.errVal("json: " + err.Error())
		}
		v, err := e.fromJSON(generic, elemT, ptr.load())
		if err != "" {
			return e.errVal("json: " + err)
		}
		ptr.store(v)
		return IfaceVal{}
	})
	reg(sdkT+"MustSortJSON", func(e *Exec, a []Value) Value { return a[0] })

	// ---- JSON schema
	loader := func(e *Exec, fn *ssa.Function, a []Value) Value {
		return IfaceVal{T: fn.Signature.Results().At(0).Type(), V: ModelVal{Kind: "jsonloader", Obj: a[0]}}
	}
	regFn("github.com/xeipuuv/gojsonschema.NewBytesLoader", loader)
	regFn("github.com/xeipuuv/gojsonschema.NewStringLoader", loader)
	regFn("github.com/xeipuuv/gojsonschema.Validate", func(e *Exec, fn *ssa.Function, a []Value) Value {
		schemaV := a[0].(IfaceVal).V.(ModelVal).Obj
		docV := a[1].(IfaceVal).V.(ModelVal).Obj
		schema, ok := e.concreteOf(schemaV)
		if !ok {
			panic(abort{"json schema must be concrete"})
		}
		res := &schemaResult{}
		var att interface{}
		switch d := docV.(type) {
		case StrVal:
			att = d.Att
		case SliceVal:
			att = d.Att
		}
		if pa, isPricing := att.(*PricingAtt); isPricing {
			if !strings.Contains(schema, "iservice-pricing") {
				panic(abort{"structured pricing text validated against another schema"})
			}
			// vf.PricingText only builds schema-valid values; vf.PricingTextLoose says when its value is
			res.valid = pa.Valid == nil || e.branch(pa.Valid)
			if !res.valid {
				res.errs = []string{"pricing: does not match the schema"}
			}
		} else {
			doc, ok := e.concreteOf(docV)
			if !ok {
				panic(abort{"json document must be concrete or structured"})
			}
			r, err := runSchema(schema, doc)
			if err != nil {
				return TupleVal{PtrVal{}, e.errVal("schema: " + err.Error())}
			}
			res = r
		}
		return TupleVal{PtrVal{Root: &Cell{V: ModelVal{Kind: "schemaresult", Obj: res}}}, IfaceVal{}}
	})
	resOf := func(v Value) *schemaResult { return v.(PtrVal).Root.V.(ModelVal).Obj.(*schemaResult) }
	reg("(*github.com/xeipuuv/gojsonschema.Result).Valid", func(e *Exec, a []Value) Value { return e.tt.Bool(resOf(a[0]).valid) })
	regFn("(*github.com/xeipuuv/gojsonschema.Result).Errors", func(e *Exec, fn *ssa.Function, a []Value) Value {
		r := resOf(a[0])
		et := fn.Signature.Results().At(0).Type().Underlying().(*types.Slice).Elem()
		var els []Value
		for _, s := range r.errs {
			els = append(els, IfaceVal{T: et, V: ModelVal{Kind: "schemaerr", Tag: s}})
		}
		if len(els) == 0 {
			return SliceVal{}
		}
		return SliceVal{Arr: &Cell{V: &ArrayVal{Elems: els}}, Len: len(els), Cap: len(els)}
	})
	modelMethods["schemaerr.String"] = func(e *Exec, r ModelVal, a []Value) Value { return e.constStr(r.Tag) }
	regFn("github.com/xeipuuv/gojsonschema.NewSchema", func(e *Exec, fn *ssa.Function, a []Value) Value {
		docV := a[0].(IfaceVal).V.(ModelVal).Obj
		doc, ok := e.concreteOf(docV)
		if !ok {
			panic(abort{"json schema must be concrete"})
		}
		if _, err := gojsonschema.NewSchema(gojsonschema.NewStringLoader(doc)); err != nil {
			return TupleVal{PtrVal{}, e.errVal("schema")}
		}
		return TupleVal{PtrVal{Root: &Cell{V: ModelVal{Kind: "schema"}}}, IfaceVal{}}
	})

	// ---- coin parsing (inside the real ParsePricing)
	regFn(sdkT+"ParseDecCoin", func(e *Exec, fn *ssa.Function, a []Value) Value {
		s := a[0].(StrVal)
		dc := e.zero(fn.Signature.Results().At(0).Type()).(*StructVal)
		if at, ok := s.Att.(PriceAtt); ok {
			dn := at.Denom
			if dn == "" {
				dn = "stake"
			}
			dc.Fields[0] = e.constStr(dn)
			if at.Dec { // sdk.NewDecFromStr of this SDK version makes no range check
				dc.Fields[1] = &BigVal{T: at.Amount}
				return TupleVal{dc, IfaceVal{}}
			}
			dc.Fields[1] = &BigVal{T: e.tt.IntBin("*", at.Amount, e.tt.Int(prec))}
			return TupleVal{dc, IfaceVal{}}
		}
		c, ok := concreteString(s)
		if !ok {
			panic(abort{"ParseDecCoin on symbolic text"})
		}
		m := regexp.MustCompile(`^(\d+(?:\.\d+)?)\s*([a-z][a-z0-9/]{2,63})$`).FindStringSubmatch(strings.TrimSpace(c))
		if m == nil {
			return TupleVal{dc, e.errVal("invalid decimal coin expression")}
		}
		v, ok := parseDec(m[1])
		if !ok {
			return TupleVal{dc, e.errVal("invalid decimal coin amount")}
		}
		dc.Fields[0] = e.constStr(m[2])
		dc.Fields[1] = &BigVal{T: e.tt.Int(v)}
		return TupleVal{dc, IfaceVal{}}
	})
	reg("("+sdkT+"Coins).String", func(e *Exec, a []Value) Value { return e.constStr("<coins>") })
	reg("("+sdkT+"Coin).String", func(e *Exec, a []Value) Value { return e.constStr("<coin>") })
	reg("("+sdkT+"DecCoin).String", func(e *Exec, a []Value) Value { return e.constStr("<deccoin>") })
	_ = reflect.TypeOf
}

func (e *Exec) mkSlice(els []Value) SliceVal {
	if len(els) == 0 {
		return SliceVal{}
	}
	return SliceVal{Arr: &Cell{V: &ArrayVal{Elems: els}}, Len: len(els), Cap: len(els)}
}

func (e *Exec) rawPricing(at *PricingAtt) *StructVal {
	var bt, bv []Value
	for _, p := range at.ByTime {
		bt = append(bt, &StructVal{Fields: []Value{p.Start, p.End, &BigVal{T: p.Disc}}})
	}
	for _, p := range at.ByVol {
		bv = append(bv, &StructVal{Fields: []Value{p.Vol, &BigVal{T: p.Disc}}})
	}
	price := StrVal{B: e.constStr("<price>").B, Att: PriceAtt{Amount: at.Price, Denom: at.Denom, Dec: at.PriceDec}}
	return &StructVal{Fields: []Value{price, e.mkSlice(bt), e.mkSlice(bv)}}
}

// parsePricingText parses a concrete pricing JSON text (integer base-denom prices only).
func (e *Exec) parsePricingText(c string) (*PricingAtt, string) {
	var raw struct {
		Price string `json:"price"`
		ByT   []struct {
			Start string `json:"start_time"`
			End   string `json:"end_time"`
			Disc  string `json:"discount"`
		} `json:"promotions_by_time"`
		ByV []struct {
			Vol  uint64 `json:"volume"`
			Disc string `json:"discount"`
		} `json:"promotions_by_volume"`
	}
	if err := json.Unmarshal([]byte(c), &raw); err != nil {
		return nil, err.Error()
	}
	if len(raw.ByT) > 0 {
		panic(abort{"concrete pricing text with time promotions (use vf.PricingText)"})
	}
	m := regexp.MustCompile(`^(\d+)stake$`).FindStringSubmatch(raw.Price)
	if m == nil {
		panic(abort{"concrete pricing text outside the modelled form <int>stake: " + raw.Price})
	}
	amt, _ := parseDec(m[1])
	at := &PricingAtt{Price: e.tt.Int(amt.Quo(amt, prec))}
	for _, v := range raw.ByV {
		d, ok := parseDec(v.Disc)
		if !ok {
			return nil, "bad discount"
		}
		at.ByVol = append(at.ByVol, PromoV{Vol: e.tt.BV(64, v.Vol), Disc: e.tt.Int(d)})
	}
	return at, ""
}

// fromJSON fills a Go value of type t from a decoded JSON value (flat structs and basics).
func (e *Exec) fromJSON(j interface{}, t types.Type, cur Value) (Value, string) {
	switch u := t.Underlying().(type) {
	case *types.Basic:
		switch {
		case u.Info()&types.IsString != 0:
			s, ok := j.(string)
			if !ok {
				return nil, "cannot unmarshal into string"
			}
			return e.constStr(s), ""
		case u.Info()&types.IsInteger != 0:
			f, ok := j.(float64)
			if !ok || f != float64(int64(f)) {
				return nil, "cannot unmarshal into integer"
			}
			bits := intBits(u)
			if u.Info()&types.IsUnsigned != 0 && (f < 0 || (bits < 64 && f >= float64(uint64(1)<<uint(bits)))) {
				return nil, "number out of range"
			}
			return e.tt.BV(bits, uint64(int64(f))), ""
		case u.Info()&types.IsBoolean != 0:
			b, ok := j.(bool)
			if !ok {
				return nil, "cannot unmarshal into bool"
			}
			return e.tt.Bool(b), ""
		}
	case *types.Struct:
		m, ok := j.(map[string]interface{})
		if !ok {
			return nil, "cannot unmarshal into struct"
		}
		sv := cur.(*StructVal)
		for i := 0; i < u.NumFields(); i++ {
			name := u.Field(i).Name()
			tag := reflect.StructTag(u.Tag(i)).Get("json")
			if tag != "" {
				name = strings.Split(tag, ",")[0]
			}
			var jv interface{}
			found := false
			for k, v := range m {
				if strings.EqualFold(k, name) {
					jv, found = v, true
				}
			}
			if !found || jv == nil {
				continue
			}
			fv, err := e.fromJSON(jv, u.Field(i).Type(), sv.Fields[i])
			if err != "" {
				return nil, err
			}
			sv.Fields[i] = fv
		}
		return sv, ""
	case *types.Map:
		// map[string]interface{} (service schemas): keep the raw JSON text
		bz, _ := json.Marshal(j)
		if _, ok := j.(map[string]interface{}); !ok && j != nil {
			return nil, "cannot unmarshal into map"
		}
		return MapRef{M: &MapVal{Entries: []MapEntry{{K: e.constStr("<raw>"), V: IfaceVal{T: types.Typ[types.String], V: e.constStr(string(bz))}}}}}, ""
	}
	return nil, "unsupported json target " + t.String()
}

func init() {
	// strings.Builder: the unsafe parts only
	reg("(*strings.Builder).copyCheck", func(e *Exec, a []Value) Value { return nil })
	reg("(*strings.Builder).String", func(e *Exec, a []Value) Value {
		p := a[0].(PtrVal)
		if p.Root == nil {
			panic(goPanic{"nil pointer dereference"})
		}
		b := p.loadRef().(*StructVal)
		for _, f := range b.Fields {
			if s, ok := f.(SliceVal); ok {
				return StrVal{B: append([]*Term{}, e.bytesOf(s)...)}
			}
		}
		return StrVal{}
	})
	// sort.Slice / sort.SliceStable: insertion sort through the less closure (stable)
	sortSlice := func(e *Exec, a []Value) Value {
		s, ok := a[0].(IfaceVal).V.(SliceVal)
		if !ok || s.Len < 2 {
			return nil
		}
		less := a[1].(*ClosureVal)
		arr := s.Arr.V.(*ArrayVal)
		lt := func(i, j int) bool {
			r := e.Call(less.Fn, []Value{e.tt.BV(64, uint64(i)), e.tt.BV(64, uint64(j))}, less.Free).(*Term)
			return e.branch(r)
		}
		for i := 1; i < s.Len; i++ {
			for j := i; j > 0 && lt(j, j-1); j-- {
				arr.Elems[s.Off+j], arr.Elems[s.Off+j-1] = arr.Elems[s.Off+j-1], arr.Elems[s.Off+j]
			}
		}
		return nil
	}
	reg("sort.Slice", sortSlice)
	reg("sort.SliceStable", sortSlice)
	reg("fmt.Sprint", func(e *Exec, a []Value) Value {
		var out []*Term
		for _, v := range e.variadic(a[0]) {
			out = append(out, e.sprintf("%v", []Value{v}).B...)
		}
		return StrVal{B: out}
	})
	reg("strings.EqualFold", func(e *Exec, a []Value) Value {
		x, okx := concreteString(a[0].(StrVal))
		y, oky := concreteString(a[1].(StrVal))
		if !okx || !oky {
			panic(abort{"strings.EqualFold on symbolic text"})
		}
		return e.tt.Bool(strings.EqualFold(x, y))
	})
	reg("strings.Repeat", func(e *Exec, a []Value) Value {
		n := e.concretize(a[1].(*Term), 1<<16)
		if n < 0 {
			panic(goPanic{"strings: negative Repeat count"})
		}
		var out []*Term
		for i := 0; i < n; i++ {
			out = append(out, a[0].(StrVal).B...)
		}
		return StrVal{B: out}
	})
	reg("bytes.HasPrefix", func(e *Exec, a []Value) Value {
		s, p := e.bytesOf(a[0]), e.bytesOf(a[1])
		if len(s) < len(p) {
			return e.tt.Bool(false)
		}
		return e.strEq(s[:len(p)], p)
	})
	reg("bytes.HasSuffix", func(e *Exec, a []Value) Value {
		s, p := e.bytesOf(a[0]), e.bytesOf(a[1])
		if len(s) < len(p) {
			return e.tt.Bool(false)
		}
		return e.strEq(s[len(s)-len(p):], p)
	})
	reg("strings.HasPrefix", func(e *Exec, a []Value) Value {
		s, p := e.bytesOf(a[0]), e.bytesOf(a[1])
		if len(s) < len(p) {
			return e.tt.Bool(false)
		}
		return e.strEq(s[:len(p)], p)
	})
	reg("strings.HasSuffix", func(e *Exec, a []Value) Value {
		s, p := e.bytesOf(a[0]), e.bytesOf(a[1])
		if len(s) < len(p) {
			return e.tt.Bool(false)
		}
		return e.strEq(s[len(s)-len(p):], p)
	})
}
