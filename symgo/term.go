package main

import (
	"crypto/sha1"
	"encoding/binary"
	"fmt"
	"math/big"
	"sort"
	"strings"
)

// Sort of an SMT term.
type Sort int

const (
	SBool Sort = iota
	SBV8
	SBV16
	SBV32
	SBV64
	SInt
)

func (s Sort) Bits() int {
	switch s {
	case SBV8:
		return 8
	case SBV16:
		return 16
	case SBV32:
		return 32
	case SBV64:
		return 64
	}
	return 0
}

func (s Sort) SMT() string {
	switch s {
	case SBool:
		return "Bool"
	case SInt:
		return "Int"
	}
	return fmt.Sprintf("(_ BitVec %d)", s.Bits())
}

func bvSort(bits int) Sort {
	switch bits {
	case 8:
		return SBV8
	case 16:
		return SBV16
	case 32:
		return SBV32
	case 64:
		return SBV64
	}
	panic(fmt.Sprintf("bvSort %d", bits))
}

// Term is a node of a hash-consed DAG.
type Term struct {
	Op   string // "const", "var", or SMT operator
	Args []*Term
	Sort Sort
	U    uint64   // value of BV / Bool constant
	Big  *big.Int // value of Int constant
	Name string   // variable name, or extra (extract/extend parameters)
	NN   bool     // Int variable constrained to be >= 0 at creation
	id   int
}

func (t *Term) IsConst() bool { return t.Op == "const" }

type termKey struct {
	Op, Name, Big string
	Sort          Sort
	U             uint64
	A0, A1, A2    int32
	N             int8
}

type TermTable struct {
	m    map[termKey]*Term
	next int
	vars map[*Term][]int
	hash map[*Term][16]byte
	nn   map[*Term]bool
	snap interface{} // globals after package initialisation, built with this table's terms
}

// NonNeg: a cheap syntactic proof that an Int term is >= 0 (used to drop sign case splits).
func (tt *TermTable) NonNeg(t *Term) bool {
	if v, ok := tt.nn[t]; ok {
		return v
	}
	r := false
	switch t.Op {
	case "const":
		r = t.Big != nil && t.Big.Sign() >= 0
	case "var":
		r = t.NN
	case "+", "*":
		r = tt.NonNeg(t.Args[0]) && tt.NonNeg(t.Args[1])
	case "div":
		r = tt.NonNeg(t.Args[0]) && t.Args[1].IsConst() && t.Args[1].Big.Sign() > 0
	case "mod":
		r = t.Args[1].IsConst() && t.Args[1].Big.Sign() > 0
	case "ite":
		r = tt.NonNeg(t.Args[1]) && tt.NonNeg(t.Args[2])
	case "bv2nat":
		r = true
	}
	tt.nn[t] = r
	return r
}

func NewTermTable() *TermTable {
	return &TermTable{m: map[termKey]*Term{}, vars: map[*Term][]int{}, hash: map[*Term][16]byte{}, nn: map[*Term]bool{}}
}

// Hash is a structural hash of a term, independent of the table it lives in (query cache key).
func (tt *TermTable) Hash(t *Term) [16]byte {
	if h, ok := tt.hash[t]; ok {
		return h
	}
	hs := sha1.New()
	hs.Write([]byte(t.Op))
	hs.Write([]byte{0})
	hs.Write([]byte(t.Name))
	var buf [10]byte
	buf[0] = byte(t.Sort)
	binary.LittleEndian.PutUint64(buf[1:], t.U)
	hs.Write(buf[:])
	if t.Big != nil {
		hs.Write([]byte(t.Big.String()))
	}
	for _, a := range t.Args {
		ah := tt.Hash(a)
		hs.Write(ah[:])
	}
	var out [16]byte
	copy(out[:], hs.Sum(nil))
	tt.hash[t] = out
	return out
}

// Vars returns the sorted ids of the variables a term depends on (memoised).
func (tt *TermTable) Vars(t *Term) []int {
	if v, ok := tt.vars[t]; ok {
		return v
	}
	var out []int
	switch t.Op {
	case "const":
	case "var":
		out = []int{t.id}
	default:
		for _, a := range t.Args {
			out = mergeSorted(out, tt.Vars(a))
		}
	}
	tt.vars[t] = out
	return out
}

func mergeSorted(a, b []int) []int {
	if len(a) == 0 {
		return b
	}
	if len(b) == 0 {
		return a
	}
	out := make([]int, 0, len(a)+len(b))
	i, j := 0, 0
	for i < len(a) && j < len(b) {
		switch {
		case a[i] < b[j]:
			out = append(out, a[i])
			i++
		case a[i] > b[j]:
			out = append(out, b[j])
			j++
		default:
			out = append(out, a[i])
			i++
			j++
		}
	}
	out = append(out, a[i:]...)
	out = append(out, b[j:]...)
	return out
}

func (tt *TermTable) intern(t *Term) *Term {
	k := termKey{Op: t.Op, Name: t.Name, Sort: t.Sort, U: t.U, N: int8(len(t.Args))}
	if t.Big != nil {
		k.Big = t.Big.String()
	}
	switch len(t.Args) {
	case 3:
		k.A2 = int32(t.Args[2].id)
		fallthrough
	case 2:
		k.A1 = int32(t.Args[1].id)
		fallthrough
	case 1:
		k.A0 = int32(t.Args[0].id)
	case 0:
	default:
		panic("term with more than 3 arguments")
	}
	if e, ok := tt.m[k]; ok {
		return e
	}
	tt.next++
	t.id = tt.next
	tt.m[k] = t
	return t
}

func mask(bits int) uint64 {
	if bits == 64 {
		return ^uint64(0)
	}
	return (uint64(1) << uint(bits)) - 1
}

func (tt *TermTable) BV(bits int, v uint64) *Term {
	k := termKey{Op: "const", Sort: bvSort(bits), U: v & mask(bits)}
	if e, ok := tt.m[k]; ok {
		return e
	}
	return tt.intern(&Term{Op: "const", Sort: k.Sort, U: k.U})
}
func (tt *TermTable) Bool(b bool) *Term {
	u := uint64(0)
	if b {
		u = 1
	}
	k := termKey{Op: "const", Sort: SBool, U: u}
	if e, ok := tt.m[k]; ok {
		return e
	}
	return tt.intern(&Term{Op: "const", Sort: SBool, U: u})
}
func (tt *TermTable) Int(v *big.Int) *Term {
	return tt.intern(&Term{Op: "const", Sort: SInt, Big: new(big.Int).Set(v)})
}
func (tt *TermTable) Int64(v int64) *Term { return tt.Int(big.NewInt(v)) }
func (tt *TermTable) Var(name string, s Sort) *Term {
	return tt.intern(&Term{Op: "var", Sort: s, Name: name})
}

func signed(v uint64, bits int) int64 {
	if bits == 64 {
		return int64(v)
	}
	if v&(1<<uint(bits-1)) != 0 {
		return int64(v | ^mask(bits))
	}
	return int64(v)
}

// Not / And / Or / Ite / Eq with simplification.
func (tt *TermTable) Not(a *Term) *Term {
	if a.IsConst() {
		return tt.Bool(a.U == 0)
	}
	if a.Op == "not" {
		return a.Args[0]
	}
	return tt.intern(&Term{Op: "not", Args: []*Term{a}, Sort: SBool})
}
func (tt *TermTable) And(a, b *Term) *Term {
	if a.IsConst() {
		if a.U == 0 {
			return a
		}
		return b
	}
	if b.IsConst() {
		if b.U == 0 {
			return b
		}
		return a
	}
	if a == b {
		return a
	}
	return tt.intern(&Term{Op: "and", Args: []*Term{a, b}, Sort: SBool})
}
func (tt *TermTable) Or(a, b *Term) *Term {
	return tt.Not(tt.And(tt.Not(a), tt.Not(b)))
}
func (tt *TermTable) Eq(a, b *Term) *Term {
	if a == b {
		return tt.Bool(true)
	}
	if a.IsConst() && b.IsConst() {
		if a.Sort == SInt {
			return tt.Bool(a.Big.Cmp(b.Big) == 0)
		}
		return tt.Bool(a.U == b.U)
	}
	if a.Sort != b.Sort {
		panic(fmt.Sprintf("Eq sort mismatch %v %v", a.Sort, b.Sort))
	}
	if a.Sort.Bits() > 0 {
		// cheap range reasoning: disjoint unsigned ranges can never be equal
		alo, ahi := tt.urange(a)
		blo, bhi := tt.urange(b)
		if ahi < blo || bhi < alo {
			return tt.Bool(false)
		}
		// (x + c) == (y + c)  ->  x == y
		if a.Op == "bvadd" && b.Op == "bvadd" && a.Args[1] == b.Args[1] {
			return tt.Eq(a.Args[0], b.Args[0])
		}
	}
	if a.id > b.id {
		a, b = b, a
	}
	return tt.intern(&Term{Op: "=", Args: []*Term{a, b}, Sort: SBool})
}
func (tt *TermTable) Ite(c, a, b *Term) *Term {
	if c.IsConst() {
		if c.U != 0 {
			return a
		}
		return b
	}
	if a == b {
		return a
	}
	return tt.intern(&Term{Op: "ite", Args: []*Term{c, a, b}, Sort: a.Sort})
}

// urange gives a sound unsigned range of a bit-vector term (cheap, syntactic).
func (tt *TermTable) urange(t *Term) (uint64, uint64) {
	bits := t.Sort.Bits()
	m := mask(bits)
	switch t.Op {
	case "const":
		return t.U, t.U
	case "bvlshr":
		if t.Args[1].IsConst() {
			_, hi := tt.urange(t.Args[0])
			sh := t.Args[1].U
			if sh >= uint64(bits) {
				return 0, 0
			}
			return 0, hi >> sh
		}
	case "bvand":
		_, h0 := tt.urange(t.Args[0])
		_, h1 := tt.urange(t.Args[1])
		if h1 < h0 {
			h0 = h1
		}
		return 0, h0
	case "bvadd":
		l0, h0 := tt.urange(t.Args[0])
		l1, h1 := tt.urange(t.Args[1])
		if h0 <= m-h1 { // no wrap
			return l0 + l1, h0 + h1
		}
	case "zero_extend":
		return tt.urange(t.Args[0])
	case "ite":
		l0, h0 := tt.urange(t.Args[1])
		l1, h1 := tt.urange(t.Args[2])
		if l1 < l0 {
			l0 = l1
		}
		if h1 > h0 {
			h0 = h1
		}
		return l0, h0
	}
	return 0, m
}

func (tt *TermTable) Implies(a, b *Term) *Term { return tt.Or(tt.Not(a), b) }

// BVBin applies a Go binary arithmetic/bitwise operator on bit-vectors.
func (tt *TermTable) BVBin(op string, a, b *Term, isSigned bool) *Term {
	bits := a.Sort.Bits()
	if a.IsConst() && b.IsConst() {
		x, y := a.U, b.U
		var r uint64
		ok := true
		switch op {
		case "bvadd":
			r = x + y
		case "bvsub":
			r = x - y
		case "bvmul":
			r = x * y
		case "bvand":
			r = x & y
		case "bvor":
			r = x | y
		case "bvxor":
			r = x ^ y
		case "bvshl":
			if y >= uint64(bits) {
				r = 0
			} else {
				r = x << y
			}
		case "bvlshr":
			if y >= uint64(bits) {
				r = 0
			} else {
				r = x >> y
			}
		case "bvashr":
			s := signed(x, bits)
			if y >= uint64(bits) {
				y = uint64(bits - 1)
			}
			r = uint64(s >> y)
		case "bvudiv":
			if y == 0 {
				ok = false
			} else {
				r = x / y
			}
		case "bvurem":
			if y == 0 {
				ok = false
			} else {
				r = x % y
			}
		case "bvsdiv":
			if y == 0 {
				ok = false
			} else {
				r = uint64(signed(x, bits) / signed(y, bits))
			}
		case "bvsrem":
			if y == 0 {
				ok = false
			} else {
				r = uint64(signed(x, bits) % signed(y, bits))
			}
		default:
			ok = false
		}
		if ok {
			return tt.BV(bits, r)
		}
	}
	// light identities
	if b.IsConst() && b.U == 0 && (op == "bvadd" || op == "bvsub" || op == "bvor" || op == "bvxor" || op == "bvshl" || op == "bvlshr" || op == "bvashr") {
		return a
	}
	if a.IsConst() && a.U == 0 && (op == "bvadd" || op == "bvor" || op == "bvxor") {
		return b
	}
	return tt.intern(&Term{Op: op, Args: []*Term{a, b}, Sort: a.Sort})
}

// BVCmp: op in bvult bvule bvslt bvsle
func (tt *TermTable) BVCmp(op string, a, b *Term) *Term {
	bits := a.Sort.Bits()
	if a.IsConst() && b.IsConst() {
		switch op {
		case "bvult":
			return tt.Bool(a.U < b.U)
		case "bvule":
			return tt.Bool(a.U <= b.U)
		case "bvslt":
			return tt.Bool(signed(a.U, bits) < signed(b.U, bits))
		case "bvsle":
			return tt.Bool(signed(a.U, bits) <= signed(b.U, bits))
		}
	}
	return tt.intern(&Term{Op: op, Args: []*Term{a, b}, Sort: SBool})
}

// Resize converts a BV to another width (Go integer conversion).
func (tt *TermTable) Resize(a *Term, toBits int, fromSigned bool) *Term {
	from := a.Sort.Bits()
	if from == toBits {
		return a
	}
	if a.IsConst() {
		if toBits > from && fromSigned {
			return tt.BV(toBits, uint64(signed(a.U, from)))
		}
		return tt.BV(toBits, a.U)
	}
	if toBits < from {
		return tt.intern(&Term{Op: "extract", Name: fmt.Sprintf("%d 0", toBits-1), Args: []*Term{a}, Sort: bvSort(toBits)})
	}
	op := "zero_extend"
	if fromSigned {
		op = "sign_extend"
	}
	return tt.intern(&Term{Op: op, Name: fmt.Sprintf("%d", toBits-from), Args: []*Term{a}, Sort: bvSort(toBits)})
}

// IntBin: op in + - * div mod
func (tt *TermTable) IntBin(op string, a, b *Term) *Term {
	if a.IsConst() && b.IsConst() {
		r := new(big.Int)
		switch op {
		case "+":
			return tt.Int(r.Add(a.Big, b.Big))
		case "-":
			return tt.Int(r.Sub(a.Big, b.Big))
		case "*":
			return tt.Int(r.Mul(a.Big, b.Big))
		}
	}
	return tt.intern(&Term{Op: op, Args: []*Term{a, b}, Sort: SInt})
}
func (tt *TermTable) IntCmp(op string, a, b *Term) *Term {
	if a.IsConst() && b.IsConst() {
		c := a.Big.Cmp(b.Big)
		switch op {
		case "<":
			return tt.Bool(c < 0)
		case "<=":
			return tt.Bool(c <= 0)
		case ">":
			return tt.Bool(c > 0)
		case ">=":
			return tt.Bool(c >= 0)
		}
	}
	return tt.intern(&Term{Op: op, Args: []*Term{a, b}, Sort: SBool})
}

// SMT rendering: every shared node becomes a define-fun, emitted in id order.
func smtConst(t *Term) string {
	switch t.Sort {
	case SBool:
		if t.U != 0 {
			return "true"
		}
		return "false"
	case SInt:
		if t.Big.Sign() < 0 {
			return "(- " + new(big.Int).Neg(t.Big).String() + ")"
		}
		return t.Big.String()
	}
	return fmt.Sprintf("(_ bv%d %d)", t.U, t.Sort.Bits())
}

// Script renders declarations+definitions for the roots and returns names of roots.
func Script(roots []*Term) (string, []string, bool) {
	seen := map[int]*Term{}
	var visit func(t *Term)
	visit = func(t *Term) {
		if _, ok := seen[t.id]; ok {
			return
		}
		seen[t.id] = t
		for _, a := range t.Args {
			visit(a)
		}
	}
	for _, r := range roots {
		visit(r)
	}
	ids := make([]int, 0, len(seen))
	for id := range seen {
		ids = append(ids, id)
	}
	sort.Ints(ids)
	var sb strings.Builder
	name := func(t *Term) string {
		switch t.Op {
		case "const":
			return smtConst(t)
		case "var":
			return "|" + t.Name + "|"
		}
		return fmt.Sprintf("t%d", t.id)
	}
	for _, id := range ids {
		t := seen[id]
		switch t.Op {
		case "const":
		case "var":
			fmt.Fprintf(&sb, "(declare-const |%s| %s)\n", t.Name, t.Sort.SMT())
		default:
			var args []string
			for _, a := range t.Args {
				args = append(args, name(a))
			}
			var expr string
			switch t.Op {
			case "extract":
				expr = fmt.Sprintf("((_ extract %s) %s)", t.Name, args[0])
			case "int2bv":
				expr = fmt.Sprintf("((_ int2bv %s) %s)", t.Name, args[0])
			case "zero_extend", "sign_extend":
				expr = fmt.Sprintf("((_ %s %s) %s)", t.Op, t.Name, args[0])
			default:
				expr = "(" + t.Op + " " + strings.Join(args, " ") + ")"
			}
			fmt.Fprintf(&sb, "(define-fun t%d () %s %s)\n", t.id, t.Sort.SMT(), expr)
		}
	}
	var names []string
	for _, r := range roots {
		names = append(names, name(r))
	}
	hasInt := false
	for _, t := range seen {
		if t.Sort == SInt {
			hasInt = true
			break
		}
	}
	return sb.String(), names, hasInt
}
