package main

import (
	"math/big"
	"strings"
	"time"

	"golang.org/x/tools/go/ssa"
)

var prec = new(big.Int).Exp(big.NewInt(10), big.NewInt(18), nil)

// unixToInternal seconds between year 1 and 1970
const unixToInternal int64 = (1969*365 + 1969/4 - 1969/100 + 1969/400) * 86400

func (e *Exec) nonneg(name string) *Term {
	t := e.input(name, SInt)
	t.NN = true
	e.addPC(e.tt.IntCmp(">=", t, e.tt.Int64(0)))
	return t
}

func (e *Exec) big(v Value) *Term {
	b, ok := v.(*BigVal)
	if !ok {
		panic(abort{"expected sdk.Int/Dec value"})
	}
	if b.Nil {
		panic(goPanic{"nil sdk.Int/Dec dereference"})
	}
	return b.T
}

func (e *Exec) neg(t *Term) *Term { return e.tt.IntBin("-", e.tt.Int64(0), t) }

// truncating division toward zero by a positive constant p
func (e *Exec) truncDiv(t *Term, p *big.Int) *Term {
	if t.IsConst() {
		return e.tt.Int(new(big.Int).Quo(t.Big, p))
	}
	pc := e.tt.Int(p)
	if e.tt.NonNeg(t) {
		return e.tt.IntBin("div", t, pc)
	}
	neg := e.tt.IntCmp("<", t, e.tt.Int64(0))
	q := e.tt.IntBin("div", t, pc)
	qn := e.neg(e.tt.IntBin("div", e.neg(t), pc))
	return e.tt.Ite(neg, qn, q)
}

// truncDivTerm: x / y truncated toward zero (math/big Quo), y != 0 on the path
func (e *Exec) truncDivTerm(x, y *Term) *Term {
	if x.IsConst() && y.IsConst() {
		return e.tt.Int(new(big.Int).Quo(x.Big, y.Big))
	}
	if e.tt.NonNeg(x) && e.tt.NonNeg(y) {
		return e.tt.IntBin("div", x, y)
	}
	zero := e.tt.Int64(0)
	ax := e.tt.Ite(e.tt.IntCmp("<", x, zero), e.neg(x), x)
	ay := e.tt.Ite(e.tt.IntCmp("<", y, zero), e.neg(y), y)
	q := e.tt.IntBin("div", ax, ay)
	sameSign := e.tt.Eq(e.tt.IntCmp("<", x, zero), e.tt.IntCmp("<", y, zero))
	return e.tt.Ite(sameSign, q, e.neg(q))
}

// half-even ("banker's") rounding of t / 10^18
func (e *Exec) chop(t *Term) *Term {
	if t.IsConst() {
		return e.tt.Int(chopBig(t.Big))
	}
	// x * 10^18 / 10^18 == x (multiplication by the decimal one)
	if t.Op == "*" {
		for i := 0; i < 2; i++ {
			if c := t.Args[i]; c.IsConst() && c.Big.Cmp(prec) == 0 {
				return t.Args[1-i]
			}
		}
	}
	p := e.tt.Int(prec)
	h := e.tt.Int(new(big.Int).Div(prec, big.NewInt(2)))
	pos := func(x *Term) *Term {
		q := e.tt.IntBin("div", x, p)
		r := e.tt.IntBin("mod", x, p)
		up := e.tt.IntBin("+", q, e.tt.Int64(1))
		even := e.tt.Eq(e.tt.IntBin("mod", q, e.tt.Int64(2)), e.tt.Int64(0))
		return e.tt.Ite(e.tt.IntCmp("<", r, h), q, e.tt.Ite(e.tt.IntCmp(">", r, h), up, e.tt.Ite(even, q, up)))
	}
	if e.tt.NonNeg(t) {
		return pos(t)
	}
	neg := e.tt.IntCmp("<", t, e.tt.Int64(0))
	return e.tt.Ite(neg, e.neg(pos(e.neg(t))), pos(t))
}

func chopBig(x *big.Int) *big.Int {
	neg := x.Sign() < 0
	a := new(big.Int).Abs(x)
	q, r := new(big.Int).QuoRem(a, prec, new(big.Int))
	h := new(big.Int).Div(prec, big.NewInt(2))
	switch r.Cmp(h) {
	case 1:
		q.Add(q, big.NewInt(1))
	case 0:
		if q.Bit(0) == 1 {
			q.Add(q, big.NewInt(1))
		}
	}
	if neg {
		q.Neg(q)
	}
	return q
}

// sbv2int converts a signed 64-bit term to Int.
func (e *Exec) sbv2int(t *Term) *Term {
	if t.IsConst() {
		return e.tt.Int64(int64(t.U))
	}
	if e.env != nil {
		if x, ok := e.env.exact[t]; ok {
			return x
		}
	}
	u := e.tt.intern(&Term{Op: "bv2nat", Args: []*Term{t}, Sort: SInt})
	two63 := e.tt.Int(new(big.Int).Lsh(big.NewInt(1), 63))
	two64 := e.tt.Int(new(big.Int).Lsh(big.NewInt(1), 64))
	return e.tt.Ite(e.tt.IntCmp(">=", u, two63), e.tt.IntBin("-", u, two64), u)
}
func (e *Exec) ubv2int(t *Term) *Term {
	if t.IsConst() {
		return e.tt.Int(new(big.Int).SetUint64(t.U))
	}
	return e.tt.intern(&Term{Op: "bv2nat", Args: []*Term{t}, Sort: SInt})
}

// exactBV64 converts an integer term that the path condition confines to the int64 range
func (e *Exec) exactBV64(t *Term) *Term {
	b := e.int2bv64(t)
	if e.env != nil && !b.IsConst() {
		if e.env.exact == nil {
			e.env.exact = map[*Term]*Term{}
		}
		e.env.exact[b] = t
	}
	return b
}

// ovf models the range check the SDK makes on the result of Int/Dec arithmetic (|result| < 2^255, for Dec
// numerators < 2^315): outside it the operation panics with "Int overflow". It is switched on per harness
// (vf.CheckOverflow); elsewhere amounts are mathematical integers and the check is outside the claim.
func (e *Exec) ovf(t *Term, ty string) *Term {
	if e.env == nil || !e.env.ovf || ty == "Uint" {
		return t
	}
	bits := uint(255)
	if ty == "Dec" {
		bits = 315
	}
	if t.IsConst() {
		if t.Big.BitLen() > int(bits) {
			panic(goPanic{"Int overflow"})
		}
		return t
	}
	lim := new(big.Int).Lsh(big.NewInt(1), bits)
	in := e.tt.IntCmp("<", t, e.tt.Int(lim))
	if !e.tt.NonNeg(t) {
		in = e.tt.And(in, e.tt.IntCmp(">", t, e.tt.Int(new(big.Int).Neg(lim))))
	}
	if !e.branch(in) {
		e.panicAt = strings.Join(e.stack[max(0, len(e.stack)-4):], " <- ")
		panic(goPanic{"Int overflow"})
	}
	return t
}

// exactSum: a 64-bit sum or difference of two values that are exact images of integer terms is the exact
// image of the wrapped integer result, so later conversions to integers stay in integer arithmetic.
func (e *Exec) exactSum(r, a, b *Term, op string) *Term {
	if e.env == nil || e.env.exact == nil || r.IsConst() || r.Sort != SBV64 {
		return r
	}
	img := func(t *Term) *Term {
		if t.IsConst() {
			return e.tt.Int64(int64(t.U))
		}
		return e.env.exact[t]
	}
	A, B := img(a), img(b)
	if A == nil || B == nil {
		return r
	}
	s := e.tt.IntBin(op, A, B)
	two63 := e.tt.Int(new(big.Int).Lsh(big.NewInt(1), 63))
	two64 := e.tt.Int(new(big.Int).Lsh(big.NewInt(1), 64))
	w := e.tt.Ite(e.tt.IntCmp(">=", s, two63), e.tt.IntBin("-", s, two64),
		e.tt.Ite(e.tt.IntCmp("<", s, e.tt.Int(new(big.Int).Neg(new(big.Int).Lsh(big.NewInt(1), 63)))), e.tt.IntBin("+", s, two64), s))
	e.env.exact[r] = w
	return r
}

// int2bv64 converts an Int term to a 64-bit vector (wrapping)
func (e *Exec) int2bv64(t *Term) *Term {
	if t.IsConst() {
		m := new(big.Int).And(t.Big, new(big.Int).SetUint64(^uint64(0)))
		return e.tt.BV(64, m.Uint64())
	}
	return e.tt.intern(&Term{Op: "int2bv", Name: "64", Args: []*Term{t}, Sort: SBV64})
}

func init() {
	bv := func(t *Term) Value { return &BigVal{T: t} }
	for _, ty := range []string{"Int", "Dec", "Uint"} {
		ty := ty
		m := func(n string) string { return "(" + sdkT + ty + ")." + n }
		reg(m("Add"), func(e *Exec, a []Value) Value { return bv(e.ovf(e.tt.IntBin("+", e.big(a[0]), e.big(a[1])), ty)) })
		reg(m("Sub"), func(e *Exec, a []Value) Value { return bv(e.ovf(e.tt.IntBin("-", e.big(a[0]), e.big(a[1])), ty)) })
		reg(m("Neg"), func(e *Exec, a []Value) Value { return bv(e.neg(e.big(a[0]))) })
		reg(m("IsZero"), func(e *Exec, a []Value) Value { return e.tt.Eq(e.big(a[0]), e.tt.Int64(0)) })
		reg(m("IsNegative"), func(e *Exec, a []Value) Value { return e.tt.IntCmp("<", e.big(a[0]), e.tt.Int64(0)) })
		reg(m("IsPositive"), func(e *Exec, a []Value) Value { return e.tt.IntCmp(">", e.big(a[0]), e.tt.Int64(0)) })
		reg(m("Equal"), func(e *Exec, a []Value) Value { return e.tt.Eq(e.big(a[0]), e.big(a[1])) })
		reg(m("GT"), func(e *Exec, a []Value) Value { return e.tt.IntCmp(">", e.big(a[0]), e.big(a[1])) })
		reg(m("GTE"), func(e *Exec, a []Value) Value { return e.tt.IntCmp(">=", e.big(a[0]), e.big(a[1])) })
		reg(m("LT"), func(e *Exec, a []Value) Value { return e.tt.IntCmp("<", e.big(a[0]), e.big(a[1])) })
		reg(m("LTE"), func(e *Exec, a []Value) Value { return e.tt.IntCmp("<=", e.big(a[0]), e.big(a[1])) })
		reg(m("IsNil"), func(e *Exec, a []Value) Value { return e.tt.Bool(a[0].(*BigVal).Nil) })
		reg(m("Sign"), func(e *Exec, a []Value) Value {
			t := e.big(a[0])
			z := e.tt.Int64(0)
			return e.tt.Ite(e.tt.IntCmp("<", t, z), e.tt.BV(64, ^uint64(0)), e.tt.Ite(e.tt.Eq(t, z), e.tt.BV(64, 0), e.tt.BV(64, 1)))
		})
		reg(m("String"), func(e *Exec, a []Value) Value {
			b := a[0].(*BigVal)
			if !b.Nil && b.T.IsConst() && ty != "Dec" {
				return e.constStr(b.T.Big.String())
			}
			return StrVal{B: e.constStr("<num>").B, Att: b}
		})
	}
	reg("("+sdkT+"Int).Mul", func(e *Exec, a []Value) Value { return bv(e.ovf(e.tt.IntBin("*", e.big(a[0]), e.big(a[1])), "Int")) })
	reg("("+sdkT+"Int).MulRaw", func(e *Exec, a []Value) Value {
		return bv(e.ovf(e.tt.IntBin("*", e.big(a[0]), e.sbv2int(a[1].(*Term))), "Int"))
	})
	reg("("+sdkT+"Int).AddRaw", func(e *Exec, a []Value) Value {
		return bv(e.ovf(e.tt.IntBin("+", e.big(a[0]), e.sbv2int(a[1].(*Term))), "Int"))
	})
	reg("("+sdkT+"Int).SubRaw", func(e *Exec, a []Value) Value {
		return bv(e.ovf(e.tt.IntBin("-", e.big(a[0]), e.sbv2int(a[1].(*Term))), "Int"))
	})
	// Int.Quo / Int.QuoRaw / Int.Mod: truncated division like math/big's Quo/Rem; a zero divisor panics
	intDiv := func(op string, raw bool) func(e *Exec, a []Value) Value {
		return func(e *Exec, a []Value) Value {
			x := e.big(a[0])
			var y *Term
			if raw {
				y = e.sbv2int(a[1].(*Term))
			} else {
				y = e.big(a[1])
			}
			if e.branch(e.tt.Eq(y, e.tt.Int64(0))) {
				panic(goPanic{"division by zero"})
			}
			q := e.truncDivTerm(x, y)
			if op == "quo" {
				return bv(q)
			}
			return bv(e.tt.IntBin("-", x, e.tt.IntBin("*", q, y)))
		}
	}
	reg("("+sdkT+"Int).Quo", intDiv("quo", false))
	reg("("+sdkT+"Int).QuoRaw", intDiv("quo", true))
	reg("("+sdkT+"Int).Mod", intDiv("mod", false))
	reg("("+sdkT+"Int).ModRaw", intDiv("mod", true))
	reg("("+sdkT+"Int).ToDec", func(e *Exec, a []Value) Value { return bv(e.tt.IntBin("*", e.big(a[0]), e.tt.Int(prec))) })
	reg("("+sdkT+"Int).Int64", func(e *Exec, a []Value) Value {
		t := e.big(a[0])
		lo := e.tt.Int(new(big.Int).Neg(new(big.Int).Lsh(big.NewInt(1), 63)))
		hi := e.tt.Int(new(big.Int).Lsh(big.NewInt(1), 63))
		if !e.branch(e.tt.And(e.tt.IntCmp(">=", t, lo), e.tt.IntCmp("<", t, hi))) {
			panic(goPanic{"Int64() out of bound"})
		}
		return e.exactBV64(t)
	})
	reg("("+sdkT+"Int).Uint64", func(e *Exec, a []Value) Value { return e.int2bv64(e.big(a[0])) })
	reg("("+sdkT+"Int).IsInt64", func(e *Exec, a []Value) Value {
		t := e.big(a[0])
		lo := e.tt.Int(new(big.Int).Neg(new(big.Int).Lsh(big.NewInt(1), 63)))
		hi := e.tt.Int(new(big.Int).Lsh(big.NewInt(1), 63))
		return e.tt.And(e.tt.IntCmp(">=", t, lo), e.tt.IntCmp("<", t, hi))
	})
	reg("("+sdkT+"Dec).Mul", func(e *Exec, a []Value) Value {
		return bv(e.ovf(e.chop(e.tt.IntBin("*", e.big(a[0]), e.big(a[1]))), "Dec"))
	})
	reg("("+sdkT+"Dec).MulInt", func(e *Exec, a []Value) Value { return bv(e.ovf(e.tt.IntBin("*", e.big(a[0]), e.big(a[1])), "Dec")) })
	reg("("+sdkT+"Dec).MulInt64", func(e *Exec, a []Value) Value {
		return bv(e.ovf(e.tt.IntBin("*", e.big(a[0]), e.sbv2int(a[1].(*Term))), "Dec"))
	})
	// the integer result goes through NewIntFromBigInt, which panics beyond 255 bits
	reg("("+sdkT+"Dec).TruncateInt", func(e *Exec, a []Value) Value { return bv(e.ovf(e.truncDiv(e.big(a[0]), prec), "Int")) })
	reg("("+sdkT+"Dec).TruncateInt64", func(e *Exec, a []Value) Value {
		t := e.truncDiv(e.big(a[0]), prec)
		lo := e.tt.Int(new(big.Int).Neg(new(big.Int).Lsh(big.NewInt(1), 63)))
		hi := e.tt.Int(new(big.Int).Lsh(big.NewInt(1), 63))
		if !e.branch(e.tt.And(e.tt.IntCmp(">=", t, lo), e.tt.IntCmp("<", t, hi))) {
			panic(goPanic{"Int64() out of bound"})
		}
		return e.exactBV64(t)
	})
	reg("("+sdkT+"Dec).RoundInt64", func(e *Exec, a []Value) Value {
		t := e.chop(e.big(a[0]))
		lo := e.tt.Int(new(big.Int).Neg(new(big.Int).Lsh(big.NewInt(1), 63)))
		hi := e.tt.Int(new(big.Int).Lsh(big.NewInt(1), 63))
		if !e.branch(e.tt.And(e.tt.IntCmp(">=", t, lo), e.tt.IntCmp("<", t, hi))) {
			panic(goPanic{"Int64() out of bound"})
		}
		return e.exactBV64(t)
	})
	reg("("+sdkT+"Dec).TruncateDec", func(e *Exec, a []Value) Value {
		return bv(e.tt.IntBin("*", e.truncDiv(e.big(a[0]), prec), e.tt.Int(prec)))
	})
	reg("("+sdkT+"Dec).RoundInt", func(e *Exec, a []Value) Value { return bv(e.ovf(e.chop(e.big(a[0])), "Int")) })
	reg("("+sdkT+"Dec).IsInteger", func(e *Exec, a []Value) Value {
		return e.tt.Eq(e.tt.IntBin("mod", e.big(a[0]), e.tt.Int(prec)), e.tt.Int64(0))
	})
	reg(sdkT+"NewDecFromInt", func(e *Exec, a []Value) Value { return bv(e.tt.IntBin("*", e.big(a[0]), e.tt.Int(prec))) })
	reg(sdkT+"NewDec", func(e *Exec, a []Value) Value {
		return bv(e.tt.IntBin("*", e.sbv2int(a[0].(*Term)), e.tt.Int(prec)))
	})
	reg(sdkT+"NewDecWithPrec", func(e *Exec, a []Value) Value {
		i, p := a[0].(*Term), a[1].(*Term)
		if !i.IsConst() || !p.IsConst() {
			panic(abort{"NewDecWithPrec on symbolic arguments"})
		}
		m := new(big.Int).Exp(big.NewInt(10), big.NewInt(18-int64(p.U)), nil)
		return bv(e.tt.Int(m.Mul(m, big.NewInt(int64(i.U)))))
	})
	reg(sdkT+"NewDecFromStr", func(e *Exec, a []Value) Value {
		sv := a[0].(StrVal)
		if b, ok := sv.Att.(*BigVal); ok { // decimal text carrying its value
			return TupleVal{bv(b.T), IfaceVal{}}
		}
		s, ok := concreteString(sv)
		if !ok {
			panic(abort{"NewDecFromStr on symbolic text"})
		}
		v, ok := parseDec(s)
		if !ok {
			return TupleVal{&BigVal{Nil: true}, e.errVal("bad decimal")}
		}
		return TupleVal{bv(e.tt.Int(v)), IfaceVal{}}
	})
	reg(sdkT+"MaxInt", func(e *Exec, a []Value) Value {
		x, y := e.big(a[0]), e.big(a[1])
		return bv(e.tt.Ite(e.tt.IntCmp("<", x, y), y, x))
	})
	reg(sdkT+"MinInt", func(e *Exec, a []Value) Value {
		x, y := e.big(a[0]), e.big(a[1])
		return bv(e.tt.Ite(e.tt.IntCmp("<", x, y), x, y))
	})
	reg(sdkT+"MaxDec", func(e *Exec, a []Value) Value {
		x, y := e.big(a[0]), e.big(a[1])
		return bv(e.tt.Ite(e.tt.IntCmp("<", x, y), y, x))
	})
	reg(sdkT+"MinDec", func(e *Exec, a []Value) Value {
		x, y := e.big(a[0]), e.big(a[1])
		return bv(e.tt.Ite(e.tt.IntCmp("<", x, y), x, y))
	})
	reg(sdkT+"OneDec", func(e *Exec, a []Value) Value { return bv(e.tt.Int(prec)) })
	reg(sdkT+"ZeroDec", func(e *Exec, a []Value) Value { return bv(e.tt.Int64(0)) })
	reg(sdkT+"ZeroInt", func(e *Exec, a []Value) Value { return bv(e.tt.Int64(0)) })
	reg(sdkT+"OneInt", func(e *Exec, a []Value) Value { return bv(e.tt.Int64(1)) })
	reg(sdkT+"NewInt", func(e *Exec, a []Value) Value { return bv(e.sbv2int(a[0].(*Term))) })
	reg(sdkT+"NewIntWithDecimal", func(e *Exec, a []Value) Value {
		n, d := a[0].(*Term), a[1].(*Term)
		if !d.IsConst() {
			panic(abort{"NewIntWithDecimal with a symbolic exponent"})
		}
		p := new(big.Int).Exp(big.NewInt(10), big.NewInt(int64(d.U)), nil)
		return bv(e.ovf(e.tt.IntBin("*", e.sbv2int(n), e.tt.Int(p)), "Int"))
	})
	reg(sdkT+"NewIntFromUint64", func(e *Exec, a []Value) Value { return bv(e.ubv2int(a[0].(*Term))) })
	reg(sdkT+"NewUint", func(e *Exec, a []Value) Value { return bv(e.ubv2int(a[0].(*Term))) })
	reg(sdkT+"NewIntFromString", func(e *Exec, a []Value) Value {
		s, ok := concreteString(a[0].(StrVal))
		if !ok {
			panic(abort{"NewIntFromString on symbolic text"})
		}
		v, ok := new(big.Int).SetString(s, 0)
		if !ok {
			return TupleVal{&BigVal{Nil: true}, e.tt.Bool(false)}
		}
		return TupleVal{bv(e.tt.Int(v)), e.tt.Bool(true)}
	})
	reg(sdkT+"mustValidateDenom", func(e *Exec, a []Value) Value {
		s, ok := concreteString(a[0].(StrVal))
		if !ok {
			panic(abort{"denom must be a concrete string"})
		}
		if !validDenom(s) {
			panic(goPanic{"invalid denom: " + s})
		}
		return nil
	})
	reg(sdkT+"ValidateDenom", func(e *Exec, a []Value) Value {
		s, ok := concreteString(a[0].(StrVal))
		if !ok {
			panic(abort{"denom must be concrete"})
		}
		if !validDenom(s) {
			return e.errVal("denom")
		}
		return IfaceVal{}
	})

	// ---- time.Time as integer nanoseconds since year 1
	tv := func(v Value) *Term { return v.(TimeVal).NS }
	reg("(time.Time).Before", func(e *Exec, a []Value) Value { return e.tt.IntCmp("<", tv(a[0]), tv(a[1])) })
	reg("(time.Time).After", func(e *Exec, a []Value) Value { return e.tt.IntCmp(">", tv(a[0]), tv(a[1])) })
	reg("(time.Time).Equal", func(e *Exec, a []Value) Value { return e.tt.Eq(tv(a[0]), tv(a[1])) })
	reg("(time.Time).IsZero", func(e *Exec, a []Value) Value { return e.tt.Eq(tv(a[0]), e.tt.Int64(0)) })
	reg("(time.Time).UTC", func(e *Exec, a []Value) Value { return a[0] })
	reg("(time.Time).Add", func(e *Exec, a []Value) Value {
		return TimeVal{NS: e.tt.IntBin("+", tv(a[0]), e.sbv2int(a[1].(*Term)))}
	})
	reg("(time.Time).Sub", func(e *Exec, a []Value) Value {
		return e.int2bv64(e.tt.IntBin("-", tv(a[0]), tv(a[1])))
	})
	reg("(time.Time).Unix", func(e *Exec, a []Value) Value {
		sec := e.tt.IntBin("div", tv(a[0]), e.tt.Int64(1_000_000_000))
		return e.int2bv64(e.tt.IntBin("-", sec, e.tt.Int64(unixToInternal)))
	})
	reg("(time.Time).UnixNano", func(e *Exec, a []Value) Value {
		off := new(big.Int).Mul(big.NewInt(unixToInternal), big.NewInt(1_000_000_000))
		return e.int2bv64(e.tt.IntBin("-", tv(a[0]), e.tt.Int(off)))
	})
	reg("(time.Time).String", func(e *Exec, a []Value) Value { return e.constStr("<time>") })
	reg("(time.Time).Format", func(e *Exec, a []Value) Value { return e.constStr("<time>") })
	reg("time.Unix", func(e *Exec, a []Value) Value {
		sec := e.tt.IntBin("+", e.sbv2int(a[0].(*Term)), e.tt.Int64(unixToInternal))
		ns := e.tt.IntBin("+", e.tt.IntBin("*", sec, e.tt.Int64(1_000_000_000)), e.sbv2int(a[1].(*Term)))
		return TimeVal{NS: ns}
	})
	reg("time.Date", func(e *Exec, a []Value) Value {
		// concrete calendar fields, UTC (package-level constants such as the last protobuf timestamp)
		var f [7]int
		for i := 0; i < 7; i++ {
			t, ok := a[i].(*Term)
			if !ok || !t.IsConst() {
				panic(abort{"time.Date with symbolic fields"})
			}
			f[i] = int(int64(t.U))
		}
		d := time.Date(f[0], time.Month(f[1]), f[2], f[3], f[4], f[5], f[6], time.UTC)
		ns := new(big.Int).Mul(big.NewInt(d.Unix()+unixToInternal), big.NewInt(1_000_000_000))
		return TimeVal{NS: e.tt.Int(ns.Add(ns, big.NewInt(int64(d.Nanosecond()))))}
	})
	reg("time.Now", func(e *Exec, a []Value) Value {
		// wall clock: arbitrary value, so that any dependence of state on it is visible
		e.nondetSeq++
		return TimeVal{NS: e.nonneg("wallclock." + itoa(e.nondetSeq))}
	})
	_ = ssa.NewProgram
}

func itoa(i int) string { return big.NewInt(int64(i)).String() }

func validDenom(s string) bool {
	// sdk: [a-z][a-z0-9/]{2,63}
	if len(s) < 3 || len(s) > 64 {
		return false
	}
	for i, c := range s {
		switch {
		case c >= 'a' && c <= 'z':
		case i > 0 && (c >= '0' && c <= '9' || c == '/'):
		default:
			return false
		}
	}
	return true
}

// parseDec parses a decimal with at most 18 fractional digits into a numerator at 10^18.
func parseDec(s string) (*big.Int, bool) {
	if s == "" {
		return nil, false
	}
	neg := false
	if s[0] == '-' {
		neg = true
		s = s[1:]
	}
	parts := strings.Split(s, ".")
	if len(parts) > 2 || parts[0] == "" {
		return nil, false
	}
	frac := ""
	if len(parts) == 2 {
		frac = parts[1]
		if frac == "" || len(frac) > 18 {
			return nil, false
		}
	}
	digits := parts[0] + frac + strings.Repeat("0", 18-len(frac))
	for _, c := range digits {
		if c < '0' || c > '9' {
			return nil, false
		}
	}
	v, ok := new(big.Int).SetString(digits, 10)
	if !ok {
		return nil, false
	}
	if neg {
		v.Neg(v)
	}
	return v, true
}
