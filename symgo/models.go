package main

import (
	"crypto/sha256"
	"fmt"
	"go/types"
	"math/big"

	"golang.org/x/tools/go/ssa"
)

type intrinsic func(e *Exec, fn *ssa.Function, args []Value) Value
type modelMethod func(e *Exec, recv ModelVal, args []Value) Value

var intrinsics = map[string]intrinsic{}
var modelMethods = map[string]modelMethod{}

func reg(name string, f func(e *Exec, a []Value) Value) {
	intrinsics[name] = func(e *Exec, fn *ssa.Function, a []Value) Value { return f(e, a) }
}
func regFn(name string, f intrinsic) { intrinsics[name] = f }

const sdkT = "github.com/cosmos/cosmos-sdk/types."

// ---------------------------------------------------------------- environment

type storeEntry struct {
	Key []*Term
	Val Value
}
type StoreModel struct{ Entries []*storeEntry }

type acct struct {
	Addr []*Term
	Bal  *Term // Int, base denom
	Auto bool  // created on first touch with an arbitrary balance
	Init *Term
}

type EnvModel struct {
	Store  *StoreModel
	Accts  []*acct
	Supply *Term
	Params map[string]Value
	nAuto  int
	ovf    bool            // the SDK's Int/Dec range checks are modelled on this path (vf.CheckOverflow)
	exact  map[*Term]*Term // 64-bit values known on this path to be the exact image of an integer term
}

type envSnap struct {
	entries []*storeEntry
	accts   []acct
	supply  *Term
	params  map[string]Value
}

func (env *EnvModel) snapshot() *envSnap {
	s := &envSnap{entries: append([]*storeEntry{}, env.Store.Entries...), supply: env.Supply, params: map[string]Value{}}
	for _, a := range env.Accts {
		s.accts = append(s.accts, *a)
	}
	for k, v := range env.Params {
		s.params[k] = v
	}
	return s
}
func (env *EnvModel) restore(s *envSnap) {
	env.Store.Entries = append([]*storeEntry{}, s.entries...)
	// accounts created inside the rolled-back branch keep existing with their initial balance
	for i := range env.Accts {
		if i < len(s.accts) {
			*env.Accts[i] = s.accts[i]
		} else if env.Accts[i].Auto {
			env.Accts[i].Bal = env.Accts[i].initBal()
		}
	}
	env.Supply = s.supply
	env.Params = map[string]Value{}
	for k, v := range s.params {
		env.Params[k] = v
	}
}

func (a *acct) initBal() *Term { return a.Init }

type CtxModel struct {
	Env      *EnvModel
	Height   *Term
	Time     TimeVal
	TxHash   Value // IfaceVal or nil
	MsgIndex Value
	EvMgr    Value
}

type IterModel struct {
	Items []*storeEntry
	Pos   int
}

func moduleAddr(name string) []byte {
	h := sha256.Sum256([]byte(name))
	return h[:20]
}

func (e *Exec) constBytes(b []byte) []*Term {
	out := make([]*Term, len(b))
	for i, c := range b {
		out[i] = e.tt.BV(8, uint64(c))
	}
	return out
}

func (e *Exec) strArg(v Value) string {
	s, ok := concreteString(v.(StrVal))
	if !ok {
		panic(abort{"label/name argument must be concrete"})
	}
	return s
}

func (e *Exec) input(name string, s Sort) *Term {
	t := e.tt.Var(name, s)
	if !e.inSeen[name] {
		e.inSeen[name] = true
		e.inputs = append(e.inputs, t)
	}
	return t
}

func (e *Exec) errVal(tag string) IfaceVal {
	return IfaceVal{T: errType, V: ModelVal{Kind: "err", Tag: tag}}
}

var errType types.Type // the `error` type

func (e *Exec) findKey(st *StoreModel, key []*Term) int {
	for i, en := range st.Entries {
		if len(en.Key) != len(key) {
			continue
		}
		if e.branch(e.strEq(en.Key, key)) {
			return i
		}
	}
	return -1
}

func (e *Exec) findAcct(addr []*Term) *acct {
	env := e.env
	for _, a := range env.Accts {
		if len(a.Addr) != len(addr) {
			continue
		}
		if e.branch(e.strEq(a.Addr, addr)) {
			return a
		}
	}
	// untracked account: arbitrary non-negative balance
	env.nAuto++
	t := e.input(fmt.Sprintf("bal.auto%d", env.nAuto), SInt)
	t.NN = true
	e.addPC(e.tt.IntCmp(">=", t, e.tt.Int64(0)))
	a := &acct{Addr: append([]*Term{}, addr...), Bal: t, Auto: true, Init: t}
	env.Accts = append(env.Accts, a)
	return a
}

// timestampsOK: every time.Time inside v lies in the range of a protobuf timestamp (years 1..9999)
func (e *Exec) timestampsOK(v Value) *Term {
	r := e.tt.Bool(true)
	var walk func(v Value)
	walk = func(v Value) {
		switch x := v.(type) {
		case TimeVal:
			for _, c := range []*Term{e.tt.IntCmp(">=", x.NS, e.tt.Int64(0)), e.tt.IntCmp("<=", x.NS, e.tt.Int(maxTimeNS))} {
				if k, ok := e.known(c); ok && k {
					continue
				}
				r = e.tt.And(r, c)
			}
		case *StructVal:
			for _, f := range x.Fields {
				walk(f)
			}
		case *ArrayVal:
			for _, f := range x.Elems {
				walk(f)
			}
		case SliceVal:
			if x.Arr != nil && x.Blob == nil {
				for _, f := range x.elems() {
					walk(f)
				}
			}
		}
	}
	walk(v)
	return r
}

func (e *Exec) modAcct(name string) *acct { return e.findAcct(e.constBytes(moduleAddr(name))) }

// coinsAmount extracts the base-denom amount of an sdk.Coins value (single denom supported)
func (e *Exec) coinsBase(v Value) (*Term, bool) {
	coins := v.(SliceVal)
	total := e.tt.Int64(0)
	for _, c := range coins.elems() {
		cs := c.(*StructVal)
		d, ok := concreteString(cs.Fields[0].(StrVal))
		if !ok || d != "stake" {
			return nil, false
		}
		total = e.tt.IntBin("+", total, e.big(cs.Fields[1]))
	}
	return total, true
}

func (e *Exec) coinsValid(v Value) *Term {
	fn := e.sdkMethod("Coins", "IsValid")
	return e.Call(fn, []Value{v}, nil).(*Term)
}

func (e *Exec) sdkMethod(typ, name string) *ssa.Function {
	pkg := e.prog.ImportedPackage("github.com/cosmos/cosmos-sdk/types")
	T := pkg.Type(typ).Type()
	sel := e.prog.MethodSets.MethodSet(T).Lookup(pkg.Pkg, name)
	if sel == nil {
		panic(abort{"no sdk method " + typ + "." + name})
	}
	return e.prog.MethodValue(sel)
}

// bankSend: the bank contract. Fails iff coins invalid or balance insufficient.
func (e *Exec) bankSend(from, to *acct, coins Value, burn bool) Value {
	if !e.branch(e.coinsValid(coins)) {
		return e.errVal("invalid coins")
	}
	amt, ok := e.coinsBase(coins)
	if !ok {
		panic(abort{"bank model: non-base denomination"})
	}
	if e.branch(e.tt.IntCmp("<", from.Bal, amt)) {
		return e.errVal("insufficient funds")
	}
	from.Bal = e.tt.IntBin("-", from.Bal, amt)
	if burn {
		e.env.Supply = e.tt.IntBin("-", e.env.Supply, amt)
	} else {
		to.Bal = e.tt.IntBin("+", to.Bal, amt)
	}
	return IfaceVal{}
}

func init() {
	// ---- SDK context
	ctxOf := func(v Value) *CtxModel { return v.(ModelVal).Obj.(*CtxModel) }
	with := func(v Value, f func(c *CtxModel)) Value {
		c := *ctxOf(v)
		f(&c)
		return ModelVal{Kind: "ctx", Obj: &c}
	}
	regFn("("+sdkT+"Context).KVStore", func(e *Exec, fn *ssa.Function, a []Value) Value {
		return IfaceVal{T: fn.Signature.Results().At(0).Type(), V: ModelVal{Kind: "store", Obj: ctxOf(a[0]).Env.Store}}
	})
	reg("("+sdkT+"Context).BlockHeight", func(e *Exec, a []Value) Value { return ctxOf(a[0]).Height })
	reg("("+sdkT+"Context).BlockTime", func(e *Exec, a []Value) Value { return ctxOf(a[0]).Time })
	regFn("("+sdkT+"Context).BlockHeader", func(e *Exec, fn *ssa.Function, a []Value) Value {
		ht := fn.Signature.Results().At(0).Type()
		h := e.zero(ht).(*StructVal)
		st := ht.Underlying().(*types.Struct)
		for i := 0; i < st.NumFields(); i++ {
			switch st.Field(i).Name() {
			case "Height":
				h.Fields[i] = ctxOf(a[0]).Height
			case "Time":
				h.Fields[i] = ctxOf(a[0]).Time
			}
		}
		return h
	})
	reg("("+sdkT+"Context).EventManager", func(e *Exec, a []Value) Value { return ctxOf(a[0]).EvMgr })
	reg("("+sdkT+"Context).WithEventManager", func(e *Exec, a []Value) Value {
		return with(a[0], func(c *CtxModel) { c.EvMgr = a[1] })
	})
	reg("("+sdkT+"Context).WithBlockHeight", func(e *Exec, a []Value) Value {
		return with(a[0], func(c *CtxModel) { c.Height = a[1].(*Term) })
	})
	reg("("+sdkT+"Context).WithBlockTime", func(e *Exec, a []Value) Value {
		return with(a[0], func(c *CtxModel) { c.Time = a[1].(TimeVal) })
	})
	reg("("+sdkT+"Context).WithLogger", func(e *Exec, a []Value) Value { return a[0] })
	regFn("("+sdkT+"Context).Logger", func(e *Exec, fn *ssa.Function, a []Value) Value {
		return IfaceVal{T: fn.Signature.Results().At(0).Type(), V: ModelVal{Kind: "logger"}}
	})
	for _, m := range []string{"With"} {
		modelMethods["logger."+m] = func(e *Exec, r ModelVal, a []Value) Value {
			return IfaceVal{T: errType, V: r}
		}
	}
	for _, m := range []string{"Info", "Error", "Debug"} {
		modelMethods["logger."+m] = func(e *Exec, r ModelVal, a []Value) Value { return nil }
	}
	regFn("("+sdkT+"Context).Context", func(e *Exec, fn *ssa.Function, a []Value) Value {
		return IfaceVal{T: fn.Signature.Results().At(0).Type(), V: ModelVal{Kind: "gocontext", Obj: ctxOf(a[0])}}
	})
	modelMethods["gocontext.Value"] = func(e *Exec, r ModelVal, a []Value) Value {
		c := r.Obj.(*CtxModel)
		k := a[0].(IfaceVal)
		ks, ok := k.V.(StrVal)
		if !ok {
			return IfaceVal{}
		}
		switch s, _ := concreteString(ks); s {
		case "tx_hash":
			if c.TxHash != nil {
				return c.TxHash
			}
		case "msg_index":
			if c.MsgIndex != nil {
				return c.MsgIndex
			}
		}
		return IfaceVal{}
	}
	reg(sdkT+"UnwrapSDKContext", func(e *Exec, a []Value) Value {
		return ModelVal{Kind: "ctx", Obj: a[0].(IfaceVal).V.(ModelVal).Obj.(*CtxModel)}
	})
	regFn(sdkT+"WrapSDKContext", func(e *Exec, fn *ssa.Function, a []Value) Value {
		return IfaceVal{T: fn.Signature.Results().At(0).Type(), V: ModelVal{Kind: "gocontext", Obj: ctxOf(a[0])}}
	})

	// ---- store
	modelMethods["store.Set"] = func(e *Exec, r ModelVal, a []Value) Value {
		st := r.Obj.(*StoreModel)
		key := e.bytesOf(a[0])
		val := a[1].(SliceVal)
		if len(key) == 0 {
			panic(goPanic{"store: key is nil"})
		}
		if val.Arr == nil {
			panic(goPanic{"store: value is nil"})
		}
		val = e.freezeBytes(val)
		ne := &storeEntry{Key: append([]*Term{}, key...), Val: val}
		if i := e.findKey(st, key); i >= 0 {
			st.Entries[i] = ne
		} else {
			st.Entries = append(st.Entries, ne)
		}
		return nil
	}
	modelMethods["store.Get"] = func(e *Exec, r ModelVal, a []Value) Value {
		st := r.Obj.(*StoreModel)
		if i := e.findKey(st, e.bytesOf(a[0])); i >= 0 {
			return e.thawBytes(st.Entries[i].Val.(SliceVal))
		}
		return SliceVal{}
	}
	modelMethods["store.Has"] = func(e *Exec, r ModelVal, a []Value) Value {
		st := r.Obj.(*StoreModel)
		return e.tt.Bool(e.findKey(st, e.bytesOf(a[0])) >= 0)
	}
	modelMethods["store.Delete"] = func(e *Exec, r ModelVal, a []Value) Value {
		st := r.Obj.(*StoreModel)
		if i := e.findKey(st, e.bytesOf(a[0])); i >= 0 {
			st.Entries = append(st.Entries[:i:i], st.Entries[i+1:]...)
		}
		return nil
	}
	regFn(sdkT+"KVStorePrefixIterator", func(e *Exec, fn *ssa.Function, a []Value) Value {
		st := a[0].(IfaceVal).V.(ModelVal).Obj.(*StoreModel)
		return e.newIterator(fn.Signature.Results().At(0).Type(), st, e.bytesOf(a[1]), false)
	})
	regFn(sdkT+"KVStoreReversePrefixIterator", func(e *Exec, fn *ssa.Function, a []Value) Value {
		st := a[0].(IfaceVal).V.(ModelVal).Obj.(*StoreModel)
		return e.newIterator(fn.Signature.Results().At(0).Type(), st, e.bytesOf(a[1]), true)
	})
	// explicit ranges on the raw store: start <= key < end (a nil bound is open)
	rangeIter := func(reverse bool) func(e *Exec, r ModelVal, a []Value) Value {
		return func(e *Exec, r ModelVal, a []Value) Value {
			st := r.Obj.(*StoreModel)
			var start, end []*Term
			if sv := a[0].(SliceVal); sv.Arr != nil {
				start = e.bytesOf(sv)
			}
			hasEnd := false
			if sv := a[1].(SliceVal); sv.Arr != nil {
				end = e.bytesOf(sv)
				hasEnd = true
			}
			var items []*storeEntry
			for _, en := range st.Entries {
				in := e.tt.Not(e.lexLess(en.Key, start))
				if hasEnd {
					in = e.tt.And(in, e.lexLess(en.Key, end))
				}
				if e.branch(in) {
					items = append(items, en)
				}
			}
			for i := 1; i < len(items); i++ {
				for j := i; j > 0; j-- {
					if e.branch(e.lexLess(items[j].Key, items[j-1].Key)) {
						items[j], items[j-1] = items[j-1], items[j]
					} else {
						break
					}
				}
			}
			if reverse {
				for i, j := 0, len(items)-1; i < j; i, j = i+1, j-1 {
					items[i], items[j] = items[j], items[i]
				}
			}
			return IfaceVal{T: e.invokeSig.Results().At(0).Type(), V: ModelVal{Kind: "iter", Obj: &IterModel{Items: items}}}
		}
	}
	modelMethods["store.Iterator"] = rangeIter(false)
	modelMethods["store.ReverseIterator"] = rangeIter(true)
	modelMethods["iter.Valid"] = func(e *Exec, r ModelVal, a []Value) Value {
		it := r.Obj.(*IterModel)
		return e.tt.Bool(it.Pos < len(it.Items))
	}
	modelMethods["iter.Next"] = func(e *Exec, r ModelVal, a []Value) Value {
		it := r.Obj.(*IterModel)
		if it.Pos >= len(it.Items) {
			panic(goPanic{"iterator: Next on invalid iterator"})
		}
		it.Pos++
		return nil
	}
	modelMethods["iter.Key"] = func(e *Exec, r ModelVal, a []Value) Value {
		it := r.Obj.(*IterModel)
		if it.Pos >= len(it.Items) {
			panic(goPanic{"iterator: Key on invalid iterator"})
		}
		return e.mkByteSlice(append([]*Term{}, it.Items[it.Pos].Key...))
	}
	modelMethods["iter.Value"] = func(e *Exec, r ModelVal, a []Value) Value {
		it := r.Obj.(*IterModel)
		if it.Pos >= len(it.Items) {
			panic(goPanic{"iterator: Value on invalid iterator"})
		}
		return e.thawBytes(it.Items[it.Pos].Val.(SliceVal))
	}
	modelMethods["iter.Close"] = func(e *Exec, r ModelVal, a []Value) Value { return nil }
	modelMethods["iter.Error"] = func(e *Exec, r ModelVal, a []Value) Value { return IfaceVal{} }

	// ---- codec: round-trip identity on snapshots
	marshal := func(e *Exec, r ModelVal, a []Value) Value {
		p := a[0].(IfaceVal).V.(PtrVal)
		if p.Root == nil {
			panic(goPanic{"marshal of nil pointer"})
		}
		snap := p.load()
		// a time outside years 1..9999 is not a protobuf timestamp: the generated marshaller fails on it
		if ok := e.timestampsOK(snap); !(ok.IsConst() && ok.U == 1) {
			if !e.branch(ok) {
				panic(goPanic{"marshal: timestamp outside years 1..9999"})
			}
		}
		return SliceVal{Arr: &Cell{V: &ArrayVal{Elems: []Value{e.tt.BV(8, 0)}}}, Len: 1, Cap: 1, Blob: snap}
	}
	unmarshal := func(e *Exec, r ModelVal, a []Value) Value {
		bz := a[0].(SliceVal)
		if bz.Blob == nil {
			panic(abort{"codec model: unmarshal of bytes that were not produced by the codec"})
		}
		p := a[1].(IfaceVal).V.(PtrVal)
		if p.Root == nil {
			panic(goPanic{"unmarshal into nil pointer"})
		}
		nv := e.normalise(copyValue(bz.Blob))
		if old := p.loadRef(); !isZeroValue(old) {
			// generated proto Unmarshal does not reset the message: fields absent from the wire keep their
			// value, bytes fields are decoded in place into the old backing array, repeated fields append
			nv = e.protoMerge(old, nv)
		}
		p.store(nv)
		return nil
	}
	modelMethods["codec.MustMarshalBinaryBare"] = marshal
	modelMethods["codec.MustUnmarshalBinaryBare"] = unmarshal
	modelMethods["codec.MarshalBinaryBare"] = func(e *Exec, r ModelVal, a []Value) Value {
		if p, ok := a[0].(IfaceVal).V.(PtrVal); ok && p.Root != nil {
			if ok := e.timestampsOK(p.load()); !(ok.IsConst() && ok.U == 1) && !e.branch(ok) {
				return TupleVal{SliceVal{}, e.errVal("timestamp outside years 1..9999")}
			}
		}
		return TupleVal{marshal(e, r, a), IfaceVal{}}
	}
	modelMethods["codec.UnmarshalBinaryBare"] = func(e *Exec, r ModelVal, a []Value) Value {
		unmarshal(e, r, a)
		return IfaceVal{}
	}

	// ---- bank
	modelMethods["bankKeeper.SendCoinsFromAccountToModule"] = func(e *Exec, r ModelVal, a []Value) Value {
		from := e.findAcct(e.bytesOf(a[1]))
		to := e.modAcct(e.strArg(a[2]))
		return e.bankSend(from, to, a[3], false)
	}
	modelMethods["bankKeeper.SendCoinsFromModuleToAccount"] = func(e *Exec, r ModelVal, a []Value) Value {
		from := e.modAcct(e.strArg(a[1]))
		to := e.findAcct(e.bytesOf(a[2]))
		return e.bankSend(from, to, a[3], false)
	}
	modelMethods["bankKeeper.SendCoinsFromModuleToModule"] = func(e *Exec, r ModelVal, a []Value) Value {
		from := e.modAcct(e.strArg(a[1]))
		to := e.modAcct(e.strArg(a[2]))
		return e.bankSend(from, to, a[3], false)
	}
	modelMethods["bankKeeper.BurnCoins"] = func(e *Exec, r ModelVal, a []Value) Value {
		name := e.strArg(a[1])
		if name != "service_deposit_account" {
			panic(goPanic{"module account " + name + " does not have permissions to burn tokens"})
		}
		from := e.modAcct(name)
		return e.bankSend(from, nil, a[2], true)
	}
	modelMethods["accountKeeper.GetModuleAddress"] = func(e *Exec, r ModelVal, a []Value) Value {
		return e.mkByteSlice(e.constBytes(moduleAddr(e.strArg(a[0]))))
	}

	// ---- params
	regFn("(github.com/cosmos/cosmos-sdk/x/params/types.Subspace).Get", func(e *Exec, fn *ssa.Function, a []Value) Value {
		env := ctxOf(a[1]).Env
		key := string(e.concreteBytes(a[2]))
		ptr := a[3].(IfaceVal).V.(PtrVal)
		ptr.store(e.param(env, key))
		return nil
	})
	regFn("(github.com/cosmos/cosmos-sdk/x/params/types.Subspace).SetParamSet", func(e *Exec, fn *ssa.Function, a []Value) Value {
		env := ctxOf(a[1]).Env
		p := a[2].(IfaceVal).V.(PtrVal).load().(*StructVal)
		names := []string{"MaxRequestTimeout", "MinDepositMultiple", "MinDeposit", "ServiceFeeTax", "SlashFraction", "ComplaintRetrospect", "ArbitrationTimeLimit", "TxSizeLimit", "BaseDenom"}
		for i, n := range names {
			env.Params[n] = p.Fields[i]
		}
		return nil
	})
	reg("(github.com/cosmos/cosmos-sdk/x/params/types.Subspace).HasKeyTable", func(e *Exec, a []Value) Value { return e.tt.Bool(true) })
	reg("(github.com/cosmos/cosmos-sdk/x/params/types.Subspace).WithKeyTable", func(e *Exec, a []Value) Value { return a[0] })
}

func (e *Exec) concreteBytes(v Value) []byte {
	var b []byte
	for _, t := range e.bytesOf(v) {
		if !t.IsConst() {
			panic(abort{"expected concrete bytes"})
		}
		b = append(b, byte(t.U))
	}
	return b
}

// param returns (lazily creating) a module parameter: every legal value per Params.Validate.
func (e *Exec) param(env *EnvModel, key string) Value {
	if v, ok := env.Params[key]; ok {
		return v
	}
	one := e.tt.Int(prec)
	var v Value
	posI64 := func(name string) *Term {
		t := e.input(name, SBV64)
		e.addPC(e.tt.BVCmp("bvslt", e.tt.BV(64, 0), t))
		e.addPC(e.tt.BVCmp("bvslt", t, e.tt.BV(64, 1<<62)))
		return t
	}
	switch key {
	case "BaseDenom":
		v = e.constStr("stake")
	case "SlashFraction":
		t := e.input("param.SlashFraction", SInt)
		t.NN = true
		e.addPC(e.tt.IntCmp(">=", t, e.tt.Int64(0)))
		e.addPC(e.tt.IntCmp("<=", t, one))
		v = &BigVal{T: t}
	case "ServiceFeeTax":
		t := e.input("param.ServiceFeeTax", SInt)
		t.NN = true
		e.addPC(e.tt.IntCmp(">=", t, e.tt.Int64(0)))
		e.addPC(e.tt.IntCmp("<", t, one))
		v = &BigVal{T: t}
	case "ComplaintRetrospect", "ArbitrationTimeLimit":
		// a positive time.Duration over its whole range, kept as an integer (its 64-bit image is exact)
		t := e.input("param."+key, SInt)
		t.NN = true
		e.addPC(e.tt.IntCmp(">", t, e.tt.Int64(0)))
		e.addPC(e.tt.IntCmp("<", t, e.tt.Int(new(big.Int).Lsh(big.NewInt(1), 63))))
		v = e.exactBV64(t)
	case "MinDepositMultiple", "MaxRequestTimeout":
		v = posI64("param." + key)
	case "TxSizeLimit":
		t := e.input("param.TxSizeLimit", SBV64)
		e.addPC(e.tt.Not(e.tt.Eq(t, e.tt.BV(64, 0))))
		v = t
	case "MinDeposit":
		t := e.input("param.MinDeposit", SInt)
		t.NN = true
		e.addPC(e.tt.IntCmp(">", t, e.tt.Int64(0)))
		coin := &StructVal{Fields: []Value{e.constStr("stake"), &BigVal{T: t}}}
		arr := &ArrayVal{Elems: []Value{coin}}
		v = SliceVal{Arr: &Cell{V: arr}, Len: 1, Cap: 1}
	default:
		panic(abort{"param " + key})
	}
	env.Params[key] = v
	return v
}

// freezeBytes copies a byte slice so that later writes through aliases do not reach the store.
func (e *Exec) freezeBytes(s SliceVal) SliceVal {
	if s.Blob != nil {
		return SliceVal{Arr: s.Arr, Off: s.Off, Len: s.Len, Cap: s.Len, Blob: copyValue(s.Blob), Att: s.Att}
	}
	b := e.bytesOf(s)
	r := e.mkByteSlice(append([]*Term{}, b...))
	r.Att = s.Att
	return r
}
func (e *Exec) thawBytes(s SliceVal) SliceVal { return e.freezeBytes(s) }

// newIterator: ascending (or descending) snapshot of the entries with the prefix.
func (e *Exec) newIterator(t types.Type, st *StoreModel, prefix []*Term, reverse bool) Value {
	var items []*storeEntry
	for _, en := range st.Entries {
		if len(en.Key) < len(prefix) {
			continue
		}
		if e.branch(e.strEq(en.Key[:len(prefix)], prefix)) {
			items = append(items, en)
		}
	}
	// insertion sort, forking on symbolic order
	for i := 1; i < len(items); i++ {
		for j := i; j > 0; j-- {
			if e.branch(e.lexLess(items[j].Key, items[j-1].Key)) {
				items[j], items[j-1] = items[j-1], items[j]
			} else {
				break
			}
		}
	}
	if reverse {
		for i, j := 0, len(items)-1; i < j; i, j = i+1, j-1 {
			items[i], items[j] = items[j], items[i]
		}
	}
	return IfaceVal{T: t, V: ModelVal{Kind: "iter", Obj: &IterModel{Items: items}}}
}

// normalise applies the codec round trip's nil/empty normalisation.
func (e *Exec) normalise(v Value) Value {
	switch x := v.(type) {
	case *StructVal:
		for i, f := range x.Fields {
			x.Fields[i] = e.normalise(f)
		}
		return x
	case *ArrayVal:
		for i, f := range x.Elems {
			x.Elems[i] = e.normalise(f)
		}
		return x
	case SliceVal:
		if x.Len == 0 {
			return SliceVal{}
		}
		// elements are normalised in a fresh backing array
		src := x.elems()
		arr := &ArrayVal{Elems: make([]Value, len(src))}
		for i, el := range src {
			arr.Elems[i] = e.normalise(copyValue(el))
		}
		return SliceVal{Arr: &Cell{V: arr}, Len: len(src), Cap: len(src), Blob: x.Blob, Att: x.Att}
	case *BigVal:
		if x.Nil {
			return &BigVal{T: e.tt.Int64(0)}
		}
		return x
	case PtrVal:
		if x.Root != nil && len(x.Path) == 0 {
			return PtrVal{Root: &Cell{V: e.normalise(copyValue(x.Root.V))}}
		}
		return x
	}
	return v
}

var _ = big.NewInt

func isZeroValue(v Value) bool {
	switch x := v.(type) {
	case nil:
		return true
	case *Term:
		return x.IsConst() && x.U == 0 && (x.Big == nil || x.Big.Sign() == 0)
	case StrVal:
		return len(x.B) == 0
	case SliceVal:
		return x.Arr == nil || x.Len == 0
	case *StructVal:
		for _, f := range x.Fields {
			if !isZeroValue(f) {
				return false
			}
		}
		return true
	case *BigVal:
		return x.Nil || (x.T.IsConst() && x.T.Big.Sign() == 0)
	case TimeVal:
		return x.NS.IsConst() && x.NS.Big.Sign() == 0
	case PtrVal:
		return x.Root == nil
	case MapRef:
		return x.M == nil
	case IfaceVal:
		return x.T == nil
	}
	return false
}

// protoMerge models gogoproto's generated Unmarshal into a message that already holds values.
func (e *Exec) protoMerge(old, nv Value) Value {
	switch n := nv.(type) {
	case *StructVal:
		o, ok := old.(*StructVal)
		if !ok || len(o.Fields) != len(n.Fields) {
			return nv
		}
		r := &StructVal{Fields: make([]Value, len(n.Fields))}
		for i := range n.Fields {
			r.Fields[i] = e.protoMerge(o.Fields[i], n.Fields[i])
		}
		return r
	case *Term:
		o, ok := old.(*Term)
		if !ok || o.Sort != n.Sort {
			return nv
		}
		var zero *Term
		switch n.Sort {
		case SBool:
			zero = e.tt.Bool(false)
		case SInt:
			zero = e.tt.Int64(0)
		default:
			zero = e.tt.BV(n.Sort.Bits(), 0)
		}
		return e.tt.Ite(e.tt.Eq(n, zero), o, n) // proto3 does not encode zero scalars
	case StrVal:
		if len(n.B) == 0 {
			return old
		}
		return nv
	case SliceVal:
		o, ok := old.(SliceVal)
		if !ok {
			return nv
		}
		if n.Arr == nil || n.Len == 0 {
			return old
		}
		elems := n.elems()
		if t, isT := elems[0].(*Term); isT && t.Sort == SBV8 { // bytes field: append(old[:0], data...)
			if o.Arr != nil && o.Cap >= n.Len {
				arr := o.Arr.V.(*ArrayVal)
				for i, el := range elems {
					arr.Elems[o.Off+i] = el
				}
				return SliceVal{Arr: o.Arr, Off: o.Off, Len: n.Len, Cap: o.Cap}
			}
			return nv
		}
		// repeated field: appended to what is there
		all := append(append([]Value{}, o.elems()...), elems...)
		return SliceVal{Arr: &Cell{V: &ArrayVal{Elems: all}}, Len: len(all), Cap: len(all)}
	}
	return nv
}
