package main

import (
	"crypto/sha1"
	"fmt"
	"go/types"
	"math/big"
	"sort"
	"strings"

	"golang.org/x/tools/go/ssa"
)

// max time: 9999-12-31T23:59:59Z in ns since year 1
var maxTimeNS = new(big.Int).Add(new(big.Int).Mul(big.NewInt(315537897599), big.NewInt(1_000_000_000)), big.NewInt(999_999_999)) // 9999-12-31T23:59:59.999999999Z

func (e *Exec) symTime(name string) TimeVal {
	t := e.input(name, SInt)
	t.NN = true
	e.addPC(e.tt.IntCmp(">=", t, e.tt.Int64(0)))
	e.addPC(e.tt.IntCmp("<=", t, e.tt.Int(maxTimeNS)))
	return TimeVal{NS: t}
}

// intRange: every sdk.Int that exists is below 2^255 (stated when the range checks are modelled)
func (e *Exec) intRange(t *Term) *Term {
	if e.env != nil && e.env.ovf {
		e.addPC(e.tt.IntCmp("<", t, e.tt.Int(new(big.Int).Lsh(big.NewInt(1), 255))))
	}
	return t
}

// symTimeText: an instant as a pricing text can carry it - RFC 3339 admits year 0000, which time.Parse reads
var minTextNS = new(big.Int).Mul(big.NewInt(-366*86400), big.NewInt(1_000_000_000))

// ... and a zone offset of up to 23:59 either way, so the instant may lie that much before year 0000 or after 9999
var zoneNS = big.NewInt((23*3600 + 59*60) * 1_000_000_000)

func (e *Exec) symTimeText(name string) TimeVal {
	t := e.input(name, SInt)
	e.addPC(e.tt.IntCmp(">=", t, e.tt.Int(new(big.Int).Sub(minTextNS, zoneNS))))
	e.addPC(e.tt.IntCmp("<=", t, e.tt.Int(new(big.Int).Add(maxTimeNS, zoneNS))))
	return TimeVal{NS: t}
}

func (e *Exec) symDiscount(name string) *Term {
	t := e.input(name, SInt)
	t.NN = true
	e.addPC(e.tt.IntCmp(">", t, e.tt.Int64(0)))
	e.addPC(e.tt.IntCmp("<", t, e.tt.Int(prec)))
	return t
}

func (e *Exec) report(clause, finding string, negated *Term) {
	r, _ := e.solver.Check(append(e.slicePC(negated), negated), nil)
	e.st.Queries++
	e.st.Obligations++
	var model map[string]string
	if r == "sat" {
		// full query for a model of every input
		r, model = e.solver.Check(append(append([]*Term{}, e.pc...), negated), e.inputs)
		e.st.Queries++
	}
	switch r {
	case "unsat":
		e.st.Unsat++
		if n := e.cfg.xcheckEvery; n > 0 && !negated.IsConst() {
			roots := append(e.slicePC(negated), negated)
			hs := make([]string, len(roots))
			for i, r := range roots {
				x := e.tt.Hash(r)
				hs[i] = string(x[:])
			}
			sort.Strings(hs)
			key := sha1.Sum([]byte(strings.Join(hs, "")))
			if (int(key[0])<<8|int(key[1]))%n == 0 {
				if _, done := xchecked.LoadOrStore(key, true); !done {
					ops, contra := e.solver.CrossCheck(roots)
					e.st.XChecked++
					e.st.XOpinions += ops
					if contra != "" {
						e.st.XDisagree = append(e.st.XDisagree, contra)
					}
				}
			}
		}
	case "sat":
		e.st.Sat++
		ch := map[string]int{}
		for k, v := range e.choices {
			ch[k] = v
		}
		e.violations = append(e.violations, Violation{Harness: e.harness, Clause: clause, Finding: finding, Model: model, Trace: append([]int{}, e.trace...), Choices: ch})
	default:
		e.st.Unknown++
		panic(abort{"solver verdict on obligation " + clause + ": " + r})
	}
}

func init() {
	bv := func(t *Term) Value { return &BigVal{T: t} }
	regFn("vh/vf.Bytes", func(e *Exec, fn *ssa.Function, a []Value) Value {
		name := e.strArg(a[0])
		n := e.concretize(a[1].(*Term), 4096)
		b := make([]*Term, n)
		for i := range b {
			b[i] = e.input(fmt.Sprintf("%s[%d]", name, i), SBV8)
		}
		return e.mkByteSlice(b)
	})
	regFn("vh/vf.Addr", func(e *Exec, fn *ssa.Function, a []Value) Value {
		name := e.strArg(a[0])
		n := e.concretize(a[1].(*Term), 4096)
		b := make([]*Term, n)
		for i := range b {
			b[i] = e.input(fmt.Sprintf("%s[%d]", name, i), SBV8)
		}
		if n == 20 {
			// user accounts are not module accounts (nobody holds their keys)
			for _, m := range []string{"service_deposit_account", "service_request_account", "fee_collector"} {
				e.addPC(e.tt.Not(e.strEq(b, e.constBytes(moduleAddr(m)))))
			}
		}
		return e.mkByteSlice(b)
	})
	reg("vh/vf.Uint64", func(e *Exec, a []Value) Value { return e.input(e.strArg(a[0]), SBV64) })
	reg("vh/vf.Int64", func(e *Exec, a []Value) Value { return e.input(e.strArg(a[0]), SBV64) })
	reg("vh/vf.Uint32", func(e *Exec, a []Value) Value { return e.input(e.strArg(a[0]), SBV32) })
	reg("vh/vf.Int16", func(e *Exec, a []Value) Value { return e.input(e.strArg(a[0]), SBV16) })
	reg("vh/vf.Byte", func(e *Exec, a []Value) Value { return e.input(e.strArg(a[0]), SBV8) })
	reg("vh/vf.Bool", func(e *Exec, a []Value) Value { return e.input(e.strArg(a[0]), SBool) })
	reg("vh/vf.Choice", func(e *Exec, a []Value) Value {
		n := e.concretize(a[1].(*Term), 256)
		if d, ok := e.choices[e.strArg(a[0])]; ok { // the same named choice is one decision per path
			return e.tt.BV(64, uint64(d))
		}
		d := e.decide(n, func(i int) *Term { return e.tt.Bool(true) })
		e.choices[e.strArg(a[0])] = d
		return e.tt.BV(64, uint64(d))
	})
	reg("vh/vf.Amount", func(e *Exec, a []Value) Value { return bv(e.intRange(e.nonneg(e.strArg(a[0])))) })
	reg("vh/vf.CheckOverflow", func(e *Exec, a []Value) Value {
		if e.env == nil {
			panic(abort{"vf.CheckOverflow before vf.Env"})
		}
		e.env.ovf = true
		return nil
	})
	reg("vh/vf.Dec", func(e *Exec, a []Value) Value { return bv(e.nonneg(e.strArg(a[0]))) })
	reg("vh/vf.Time", func(e *Exec, a []Value) Value { return e.symTime(e.strArg(a[0])) })
	reg("vh/vf.MaxTimestamp", func(e *Exec, a []Value) Value { return TimeVal{NS: e.tt.Int(maxTimeNS)} })
	pricingTextD := func(loose, withDenom, dec bool) func(e *Exec, a []Value) Value {
		return func(e *Exec, a []Value) Value {
			name := e.strArg(a[0])
			denom := "stake"
			if withDenom {
				denom = e.strArg(a[1])
				a = append([]Value{a[0]}, a[2:]...)
			}
			nT := e.concretize(a[1].(*Term), 6)
			nV := e.concretize(a[2].(*Term), 6)
			var at *PricingAtt
			if dec { // a decimal price text of any length: the numerator is an arbitrary non-negative integer
				at = &PricingAtt{Price: e.nonneg(name + ".price"), Denom: denom, PriceDec: true}
			} else {
				at = &PricingAtt{Price: e.intRange(e.nonneg(name + ".price")), Denom: denom}
			}
			valid := e.tt.Bool(true)
			disc := func(n string) *Term {
				if !loose {
					return e.symDiscount(n)
				}
				// a discount text the parser reads but the schema may refuse (1 or more)
				t := e.input(n, SInt)
				t.NN = true
				e.addPC(e.tt.IntCmp(">", t, e.tt.Int64(0)))
				e.addPC(e.tt.IntCmp("<", t, e.tt.Int(new(big.Int).Mul(big.NewInt(2), prec))))
				valid = e.tt.And(valid, e.tt.IntCmp("<", t, e.tt.Int(prec)))
				return t
			}
			for i := 0; i < nT; i++ {
				at.ByTime = append(at.ByTime, PromoT{
					Start: e.symTimeText(fmt.Sprintf("%s.t%d.start", name, i)),
					End:   e.symTimeText(fmt.Sprintf("%s.t%d.end", name, i)),
					Disc:  disc(fmt.Sprintf("%s.t%d.disc", name, i)),
				})
			}
			for i := 0; i < nV; i++ {
				v := e.input(fmt.Sprintf("%s.v%d.vol", name, i), SBV64)
				nz := e.tt.Not(e.tt.Eq(v, e.tt.BV(64, 0)))
				if loose {
					valid = e.tt.And(valid, nz) // the schema wants a volume of at least 1
				} else {
					e.addPC(nz)
				}
				// (the whole uint64 range: json.Unmarshal and the schema library read integers of that size exactly)
				at.ByVol = append(at.ByVol, PromoV{Vol: v, Disc: disc(fmt.Sprintf("%s.v%d.disc", name, i))})
			}
			// schema: uniqueItems
			for i := range at.ByTime {
				for j := 0; j < i; j++ {
					same := e.tt.And(e.tt.And(e.tt.Eq(at.ByTime[i].Start.NS, at.ByTime[j].Start.NS), e.tt.Eq(at.ByTime[i].End.NS, at.ByTime[j].End.NS)), e.tt.Eq(at.ByTime[i].Disc, at.ByTime[j].Disc))
					e.addPC(e.tt.Not(same))
				}
			}
			for i := range at.ByVol {
				for j := 0; j < i; j++ {
					same := e.tt.And(e.tt.Eq(at.ByVol[i].Vol, at.ByVol[j].Vol), e.tt.Eq(at.ByVol[i].Disc, at.ByVol[j].Disc))
					e.addPC(e.tt.Not(same))
				}
			}
			if loose {
				at.Valid = valid
			}
			return StrVal{B: e.constStr("<pricing:" + name + ">").B, Att: at}
		}
	}
	pricingText := func(loose, withDenom bool) func(e *Exec, a []Value) Value { return pricingTextD(loose, withDenom, false) }
	reg("vh/vf.PricingText", pricingText(false, false))
	reg("vh/vf.PricingTextLoose", pricingText(true, false))
	reg("vh/vf.PricingTextIn", pricingText(false, true))
	reg("vh/vf.PricingTextDec", pricingTextD(false, false, true))

	// ---- logic
	reg("vh/vf.And", func(e *Exec, a []Value) Value { return e.tt.And(a[0].(*Term), a[1].(*Term)) })
	reg("vh/vf.Or", func(e *Exec, a []Value) Value { return e.tt.Or(a[0].(*Term), a[1].(*Term)) })
	reg("vh/vf.All", func(e *Exec, a []Value) Value {
		r := e.tt.Bool(true)
		for _, c := range e.variadic(a[0]) {
			r = e.tt.And(r, c.(*Term))
		}
		return r
	})
	reg("vh/vf.Any", func(e *Exec, a []Value) Value {
		r := e.tt.Bool(false)
		for _, c := range e.variadic(a[0]) {
			r = e.tt.Or(r, c.(*Term))
		}
		return r
	})
	reg("vh/vf.Implies", func(e *Exec, a []Value) Value { return e.tt.Implies(a[0].(*Term), a[1].(*Term)) })
	reg("vh/vf.Assume", func(e *Exec, a []Value) Value {
		c := a[0].(*Term)
		if v, ok := e.known(c); ok {
			if !v {
				panic(pathEnd{"assume false"})
			}
			return nil
		}
		if !e.pcSat(c) {
			panic(pathEnd{"assume infeasible"})
		}
		e.addPC(c)
		return nil
	})
	assert := func(e *Exec, c *Term, clause, finding string, region *Term) {
		e.st.Asserts[e.harness+"/"+clause]++
		if v, ok := e.known(c); ok && v {
			e.st.Obligations++
			e.st.Unsat++
			return
		}
		nc := e.tt.Not(c)
		if finding != "" && e.cfg.knownOpen(finding) {
			// a listed, still-open finding: violations inside its region are reported as KNOWN-FINDING,
			// anything outside the region is a new violation
			e.report(clause, finding, e.tt.And(nc, region))
			e.report(clause, "", e.tt.And(nc, e.tt.Not(region)))
		} else {
			e.report(clause, "", nc)
		}
		// continue under the assertion
		if v, ok := e.known(c); ok && !v {
			panic(pathEnd{"assert false"})
		}
		if !e.pcSat(c) {
			panic(pathEnd{"assert never true"})
		}
		e.addPC(c)
	}
	reg("vh/vf.Assert", func(e *Exec, a []Value) Value {
		assert(e, a[0].(*Term), e.strArg(a[1]), "", nil)
		return nil
	})
	reg("vh/vf.AssertKF", func(e *Exec, a []Value) Value {
		assert(e, a[0].(*Term), e.strArg(a[1]), e.strArg(a[2]), a[3].(*Term))
		return nil
	})
	reg("vh/vf.Reach", func(e *Exec, a []Value) Value {
		e.st.Reached[e.harness+"/"+e.strArg(a[0])]++
		return nil
	})
	reg("vh/vf.Try", func(e *Exec, a []Value) Value {
		cl := a[0].(*ClosureVal)
		panicked := false
		func() {
			defer func() {
				if r := recover(); r != nil {
					if gp, ok := r.(goPanic); ok {
						panicked = true
						e.st.Panics[e.harness+": "+gp.String()]++
						return
					}
					panic(r)
				}
			}()
			e.Call(cl.Fn, nil, cl.Free)
		}()
		return e.tt.Bool(panicked)
	})

	// ---- environment
	envFn := func(e *Exec, fn *ssa.Function, a []Value) Value {
		env := &EnvModel{Store: &StoreModel{}, Params: map[string]Value{}}
		env.Supply = e.nonneg("supply")
		e.env = env
		// the keeper is built by the real constructor (keeper.NewKeeper) over model dependencies
		kpkg := e.prog.ImportedPackage("github.com/irismod/service/keeper")
		nk := kpkg.Func("NewKeeper")
		ps := nk.Signature.Params()
		args := make([]Value, ps.Len())
		for i := 0; i < ps.Len(); i++ {
			p := ps.At(i)
			switch p.Name() {
			case "cdc":
				args[i] = IfaceVal{T: p.Type(), V: ModelVal{Kind: "codec"}}
			case "key":
				args[i] = IfaceVal{T: p.Type(), V: ModelVal{Kind: "storekey", Obj: env}}
			case "accountKeeper":
				args[i] = IfaceVal{T: p.Type(), V: ModelVal{Kind: "accountKeeper", Obj: env}}
			case "bankKeeper":
				args[i] = IfaceVal{T: p.Type(), V: ModelVal{Kind: "bankKeeper", Obj: env}}
			case "tokenKeeper":
				if len(a) > 0 { // vf.EnvWith: the host application's token keeper is the harness's
					args[i] = a[0]
					break
				}
				mt := kpkg.Type("MockTokenKeeper").Type()
				args[i] = IfaceVal{T: mt, V: e.zero(mt)}
			case "paramSpace":
				args[i] = ModelVal{Kind: "params", Obj: env}
			case "feeCollectorName":
				args[i] = e.constStr("fee_collector")
			default:
				panic(abort{"keeper.NewKeeper has a parameter the harness environment does not know: " + p.Name()})
			}
		}
		k := e.Call(nk, args, nil)
		em := e.Call(e.prog.ImportedPackage("github.com/cosmos/cosmos-sdk/types").Func("NewEventManager"), nil, nil)
		ctx := ModelVal{Kind: "ctx", Obj: &CtxModel{Env: env, Height: e.tt.BV(64, 1), Time: TimeVal{NS: e.tt.Int64(0)}, EvMgr: em}}
		return TupleVal{k, ctx}
	}
	regFn("vh/vf.Env", envFn)
	regFn("vh/vf.EnvWith", envFn)
	reg("vh/vf.WithTx", func(e *Exec, a []Value) Value {
		c := *a[0].(ModelVal).Obj.(*CtxModel)
		c.TxHash = IfaceVal{T: types.NewSlice(types.Typ[types.Byte]), V: a[1]}
		c.MsgIndex = IfaceVal{T: types.Typ[types.Int64], V: a[2]}
		return ModelVal{Kind: "ctx", Obj: &c}
	})
	// the module parameters as they are in the parameter store, not as the keeper's getters report them
	regFn("vh/vf.Params", func(e *Exec, fn *ssa.Function, a []Value) Value {
		env := a[0].(ModelVal).Obj.(*CtxModel).Env
		st := e.zero(fn.Signature.Results().At(0).Type()).(*StructVal)
		names := []string{"MaxRequestTimeout", "MinDepositMultiple", "MinDeposit", "ServiceFeeTax", "SlashFraction", "ComplaintRetrospect", "ArbitrationTimeLimit", "TxSizeLimit", "BaseDenom"}
		for i, n := range names {
			st.Fields[i] = copyValue(e.param(env, n))
		}
		return st
	})
	reg("vh/vf.ProtoJSONRoundTrip", func(e *Exec, a []Value) Value { return a[1] })
	reg("vh/vf.WithTxHashOnly", func(e *Exec, a []Value) Value {
		c := *a[0].(ModelVal).Obj.(*CtxModel)
		c.TxHash = IfaceVal{T: types.NewSlice(types.Typ[types.Byte]), V: a[1]}
		c.MsgIndex = IfaceVal{}
		return ModelVal{Kind: "ctx", Obj: &c}
	})
	regFn("vh/vf.Store", func(e *Exec, fn *ssa.Function, a []Value) Value {
		c := a[0].(ModelVal).Obj.(*CtxModel)
		return IfaceVal{T: fn.Signature.Results().At(0).Type(), V: ModelVal{Kind: "store", Obj: c.Env.Store}}
	})
	reg("vh/vf.SetBalance", func(e *Exec, a []Value) Value {
		e.findAcct(e.bytesOf(a[0])).Bal = e.big(a[1])
		return nil
	})
	reg("vh/vf.Balance", func(e *Exec, a []Value) Value { return bv(e.findAcct(e.bytesOf(a[0])).Bal) })
	reg("vh/vf.SetModuleBalance", func(e *Exec, a []Value) Value {
		e.modAcct(e.strArg(a[0])).Bal = e.big(a[1])
		return nil
	})
	reg("vh/vf.ModuleBalance", func(e *Exec, a []Value) Value { return bv(e.modAcct(e.strArg(a[0])).Bal) })
	reg("vh/vf.SetSupply", func(e *Exec, a []Value) Value { e.env.Supply = e.big(a[0]); return nil })
	reg("vh/vf.Supply", func(e *Exec, a []Value) Value { return bv(e.env.Supply) })
	reg("vh/vf.ModuleAddress", func(e *Exec, a []Value) Value {
		return e.mkByteSlice(e.constBytes(moduleAddr(e.strArg(a[0]))))
	})
	regFn("vh/vf.Deliver", func(e *Exec, fn *ssa.Function, a []Value) Value {
		h := a[1].(*ClosureVal)
		snap := e.env.snapshot()
		resT := fn.Signature.Results()
		var out Value
		panicked := false
		func() {
			defer func() {
				if r := recover(); r != nil {
					if gp, ok := r.(goPanic); ok {
						panicked = true
						e.st.Panics[e.harness+": "+gp.String()]++
						return
					}
					panic(r)
				}
			}()
			out = e.Call(h.Fn, []Value{a[0], a[2]}, h.Free)
		}()
		if panicked {
			e.env.restore(snap)
			return TupleVal{e.zero(resT.At(0).Type()), IfaceVal{}, e.tt.Bool(true)}
		}
		tv := out.(TupleVal)
		if tv[1].(IfaceVal).T != nil {
			e.env.restore(snap)
		}
		return TupleVal{tv[0], tv[1], e.tt.Bool(false)}
	})
	// JSON payloads of events carry the marshalled value
	regFn("vh/vf.JSONRequests", func(e *Exec, fn *ssa.Function, a []Value) Value {
		s := a[0].(StrVal)
		if ja, ok := s.Att.(JSONAtt); ok {
			return ja.V
		}
		return SliceVal{}
	})
	reg("vh/vf.IsSymbolic", func(e *Exec, a []Value) Value { return e.tt.Bool(true) })
}

func init() {
	// legacy (amino JSON) query interface: payloads carry the Go value handed to the encoder
	reg("vh/vf.LegacyCdc", func(e *Exec, a []Value) Value { return PtrVal{Root: &Cell{V: ModelVal{Kind: "amino"}}} })
	jsonOf := func(e *Exec, v Value) Value {
		if iv, ok := v.(IfaceVal); ok {
			v = iv.V
		}
		if p, ok := v.(PtrVal); ok && p.Root != nil {
			v = p.load()
		}
		r := e.mkByteSlice(e.constStr("<amino-json>").B)
		r.Att = JSONAtt{V: e.normalise(copyValue(v))}
		return r
	}
	fromJSON := func(e *Exec, bz Value, target Value) Value {
		sv := bz.(SliceVal)
		ja, ok := sv.Att.(JSONAtt)
		if !ok {
			return e.errVal("amino: cannot decode")
		}
		target.(IfaceVal).V.(PtrVal).store(copyValue(ja.V))
		return IfaceVal{}
	}
	reg("vh/vf.AminoJSON", func(e *Exec, a []Value) Value { return jsonOf(e, a[0]) })
	reg("vh/vf.FromAminoJSON", func(e *Exec, a []Value) Value { return fromJSON(e, a[0], a[1]) })
	reg("(*github.com/cosmos/cosmos-sdk/codec.LegacyAmino).UnmarshalJSON", func(e *Exec, a []Value) Value { return fromJSON(e, a[1], a[2]) })
	reg("github.com/cosmos/cosmos-sdk/codec.MarshalJSONIndent", func(e *Exec, a []Value) Value {
		return TupleVal{jsonOf(e, a[1]), IfaceVal{}}
	})
}

func (e *Exec) deepEq(a, b Value) *Term {
	switch x := a.(type) {
	case *Term:
		y, ok := b.(*Term)
		if !ok || x.Sort != y.Sort {
			return e.tt.Bool(false)
		}
		return e.tt.Eq(x, y)
	case StrVal:
		y, ok := b.(StrVal)
		if !ok {
			return e.tt.Bool(false)
		}
		return e.strEq(x.B, y.B)
	case *BigVal:
		y, ok := b.(*BigVal)
		if !ok || x.Nil != y.Nil {
			return e.tt.Bool(false)
		}
		if x.Nil {
			return e.tt.Bool(true)
		}
		return e.tt.Eq(x.T, y.T)
	case TimeVal:
		y, ok := b.(TimeVal)
		if !ok {
			return e.tt.Bool(false)
		}
		return e.tt.Eq(x.NS, y.NS)
	case *StructVal:
		y, ok := b.(*StructVal)
		if !ok || len(x.Fields) != len(y.Fields) {
			return e.tt.Bool(false)
		}
		r := e.tt.Bool(true)
		for i := range x.Fields {
			r = e.tt.And(r, e.deepEq(x.Fields[i], y.Fields[i]))
		}
		return r
	case *ArrayVal:
		y, ok := b.(*ArrayVal)
		if !ok || len(x.Elems) != len(y.Elems) {
			return e.tt.Bool(false)
		}
		r := e.tt.Bool(true)
		for i := range x.Elems {
			r = e.tt.And(r, e.deepEq(x.Elems[i], y.Elems[i]))
		}
		return r
	case SliceVal:
		y, ok := b.(SliceVal)
		if !ok {
			return e.tt.Bool(false)
		}
		if (x.Blob != nil) != (y.Blob != nil) {
			return e.tt.Bool(false)
		}
		if x.Blob != nil {
			return e.deepEq(e.normalise(copyValue(x.Blob)), e.normalise(copyValue(y.Blob)))
		}
		if x.Len != y.Len {
			return e.tt.Bool(false)
		}
		r := e.tt.Bool(true)
		xe, ye := x.elems(), y.elems()
		for i := range xe {
			r = e.tt.And(r, e.deepEq(xe[i], ye[i]))
		}
		return r
	case PtrVal:
		y, ok := b.(PtrVal)
		if !ok || (x.Root == nil) != (y.Root == nil) {
			return e.tt.Bool(false)
		}
		if x.Root == nil {
			return e.tt.Bool(true)
		}
		return e.deepEq(x.loadRef(), y.loadRef())
	case nil:
		return e.tt.Bool(b == nil)
	}
	panic(abort{"deepEq on unsupported value"})
}

func init() {
	// SameBytes: equality of stored values (codec blobs compare by content)
	reg("vh/vf.SameBytes", func(e *Exec, a []Value) Value { return e.deepEq(a[0], a[1]) })
}
