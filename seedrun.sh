#!/bin/bash
# seedrun.sh [ids...] : apply each seeded change to /repo, run the quick check of the property it targets, revert
cd /verif
ids=${@:-$(ls seeded)}
for id in $ids; do
  prop=${id%%_*}
  git -C /repo apply /verif/seeded/$id/patch.diff || { echo "$id: patch does not apply"; continue; }
  s=$(date +%s)
  out=$(timeout 1200 ./vcheck $prop quick 2>&1)
  rc=$?
  git -C /repo checkout -- .
  v=$(echo "$out" | grep -c "^VIOLATION")
  echo "SEED $id prop=$prop exit=$rc violations=$v secs=$(( $(date +%s) - s ))"
  echo "$out" | grep -E "^  harness=|INCONCLUSIVE" | head -4
done
