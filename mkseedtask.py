#!/usr/bin/env python3
"""mkseedtask.py <round> <property-id> <worktree> : write TASK.md (the whole brief of a seeding sub-agent) into
a scratch worktree. The brief holds the property text and the list of earlier seeded changes to stay away from;
nothing about the checks."""
import json, sys, os, glob

rnd, pid, wt = sys.argv[1], sys.argv[2], sys.argv[3]
extra = sys.argv[4] if len(sys.argv) > 4 else ""
here = os.path.dirname(os.path.abspath(__file__))
prop = None
for l in open(os.path.join(here, "properties.jsonl")):
    d = json.loads(l)
    if d["id"] == pid:
        prop = d
earlier = []
for m in sorted(glob.glob(os.path.join(here, "seeded", pid + "_m*", "meta.json"))):
    try:
        w = json.load(open(m))["what"]
    except Exception:
        continue
    earlier.append("- " + w[:330].replace("\n", " "))

t = f"""# Task

You work in a scratch git worktree of a Go repository: `{wt}` (irismod/service, the IRISnet "service"
Cosmos-SDK module: service definitions, provider bindings with deposits, request contexts with batched
invocations, fees, slashing, expiry). Work ONLY inside `{wt}`; do not read or write `/repo`, `/verif` or any
other worktree. There is no network. In every shell call first run
`export GOFLAGS=-mod=mod GOPROXY=off GOSUMDB=off GOTOOLCHAIN=local`.

## The property

**{prop['title']}**

{prop['statement']}

Quantified over: {prop['quantifier']['text']}

Code it is anchored in: {', '.join(prop['anchors']['files'])}.

## What to produce

TWO independent changes, A and B, to the module's non-test source (`*.go` outside `_test.go`, not generated
`*.pb.go`), each of which

1. **breaks the property above** on some input / history / schedule,
2. still compiles (`go build ./...`) and still passes the whole existing test suite
   (`go test -vet=off -count=1 ./app/... ./keeper/... ./types/... .`, 83 tests, unedited; do not use `./...`
   once `out/` holds test files, it lies inside the module),
3. looks like something a developer could plausibly commit: a refactoring slip, an "optimisation", a
   misplaced brace, a well-meant "fix", a confused pair of similar helpers - small (a few lines, at most ~25),
4. **needs something specific to manifest**: a particular interleaving of messages and block ends, a
   multi-step sequence of operations, an unusual-but-valid input or parameter value, a boundary value, a
   particular pre-existing state, or two cooperating sites that each look fine alone. NOT something any
   ordinary use of the module would expose at once.

A and B must differ from each other in mechanism and location, and must differ from all of these changes,
which are already known (do not reproduce them or close variants of them):

{os.linesep.join(earlier) if earlier else '(none)'}

Look for behaviour these do not touch: other functions among the anchored files, other branches, other
parameters, interactions between two records or two parties, the handler layer, genesis, events, queries,
parameter changes between steps, unusual address or name shapes.
{extra}

For each change also write a **demonstration**: one new Go test file (package `keeper_test` in `keeper/`,
or package `service_test` in the repository root, using `simapp.Setup(false)` from
`github.com/irismod/service/app` (imported as `simapp`) as the existing keeper tests do) with one test function whose name starts
with `TestSeeded{pid}` that **fails with the change applied and passes on the unmodified tree**. It must
drive the real module code (handler / keeper / EndBlocker / genesis functions) and observe the broken property.

## Deliverables

Create `{wt}/out/A/` and `{wt}/out/B/`, each with

* `patch.diff` - output of `git diff` for the source change only (no test file), applying with
  `git apply` to a clean tree,
* `demo_test.go` - the demonstration test file,
* `meta.json` - `{{"property": "{pid}", "test_path": "<path of the test file relative to the repo root, e.g.
  keeper/seeded_demo_test.go>", "test_run": "go test -vet=off -count=1 ./keeper -run 'TestSeeded{pid}...$'",
  "what": "<which file/function was changed, how, and why it breaks the property>", "needs": "<what exactly
  is needed for the breakage to manifest>"}}`.

Before you finish, verify for each change, yourself: clean tree -> demo passes; apply patch -> `go build ./...`
ok, full suite passes, demo fails. Then leave the worktree clean (`git checkout -- .`, delete the demo test
file from the source tree; `out/` stays). `out/` is untracked - do not commit anything. Never use `git stash`
(the stash is shared between worktrees and other people work in sibling worktrees); use `git apply` / `git apply -R`
/ `git checkout -- .` only.
Report briefly what A and B are.
"""
open(os.path.join(wt, "TASK.md"), "w").write(t)
print("wrote", os.path.join(wt, "TASK.md"), len(t), "chars")
