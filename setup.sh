#!/bin/bash
# offline build of the engine; warms the native replay build
set -e
cd "$(dirname "$0")"
export GOFLAGS=-mod=mod GOPROXY=off GOSUMDB=off GOTOOLCHAIN=local
mkdir -p bin evidence out
(cd symgo && go build -o ../bin/symgo .)
(cd harness && go test -vet=off -count=1 -c -o ../bin/replay.test ./h >/dev/null 2>&1 || true)
echo setup ok
