package h

var wdQuick = WdOpts{LenP0: 20, LenP1: 20}

func C13_Withdraw()    { focus = "C13"; sceneWithdraw(wdQuick) }
func C13_SetWithdraw() { focus = "C13"; sceneSetWithdraw() }

// thorough: provider addresses of different lengths, one a byte-prefix of the other
func C13T_WithdrawShort12() { focus = "C13"; sceneWithdraw(WdOpts{LenP0: 1, LenP1: 2}) }
func C13T_WithdrawShort21() { focus = "C13"; sceneWithdraw(WdOpts{LenP0: 2, LenP1: 1}) }
