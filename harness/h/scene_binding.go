package h

import (
	"time"

	sdk "github.com/cosmos/cosmos-sdk/types"

	service "github.com/irismod/service"
	"github.com/irismod/service/types"

	"vh/vf"
)

const (
	opBind = iota
	opUpdBinding
	opEnable
	opDisable
	opRefund
)

type BindOpts struct {
	NT, NV     int
	AnyDeposit bool // the existing binding may be available below the minimum deposit (parameters raised since)
	MsgLoose   bool // the message's pricing is one the parser reads but the schema may refuse (discount >= 1, volume 0)
	MsgPlain   bool // the message's pricing carries no promotions (whatever the stored pricing has)
	Huge       bool // model the SDK's 255-bit range checks; the message's amounts are free up to 255 bits
	MsgDec     bool // the message's price is written as a decimal number of any length ("1000.5stake")
}

// sceneBindingMsg: bind / update / enable / disable / refund-deposit through the handler, against
// a state with the service defined (or not), the target binding present (or not), a second binding
// of the same provider (so the provider has an owner), signed by the owner or by a stranger.
func sceneBindingMsg(op int, o BindOpts) {
	noMinAssumed = o.AnyDeposit
	k, ctx := vf.Env()
	if o.Huge {
		hugeMode = true
		vf.CheckOverflow()
		vf.Assume(k.MinDeposit(ctx).AmountOf(Denom).LT(two127()))
	}
	ctx, _, now := Block(ctx)
	defined := vf.Bool("defined")
	if defined {
		Define(k, ctx, Svc)
	}
	Define(k, ctx, "other")
	Define(k, ctx, Svc+"x") // a defined service whose name extends the target's name
	// the target service may be reserved by another module (module name differs from the service name)
	reserved := op == opBind && vf.Bool("reservedByModule")
	if reserved {
		_ = k.RegisterModuleService("modx", &types.ModuleService{ServiceName: Svc, Provider: sdk.AccAddress("module-provider______")})
	}
	owner := vf.Addr("owner", 20)
	prov := vf.Addr("prov", 20)
	signer := owner
	rightful := vf.Bool("signedByOwner")
	if !rightful {
		signer = vf.Addr("stranger", 20)
		vf.Assume(!signer.Equals(owner))
	}
	depAcc := inState(vf.Amount("depositRest"))
	// the provider may already be owned through a binding of another service
	owned := vf.Bool("providerOwned")
	var other BindingSpec
	if owned {
		other = Binding(k, ctx, "bo", "other", prov, owner, 0, 0, false)
		depAcc = depAcc.Add(other.Deposit)
	}
	present := vf.Bool("bindingPresent")
	var pre BindingSpec
	if present {
		vf.Assume(defined) // D: a binding exists only for a defined service
		pre = Binding(k, ctx, "b", Svc, prov, owner, o.NT, o.NV, true)
		depAcc = depAcc.Add(pre.Deposit)
	}
	// the owner may have set a withdrawal address; no binding message may change it
	wa := owner
	if vf.Bool("hasWithdrawAddr") {
		wa = vf.Addr("withdrawAddr", 20)
		k.SetWithdrawAddress(ctx, owner, wa)
	}
	balS := inState(vf.Amount("balSigner"))
	vf.SetBalance(prov, inState(vf.Amount("balProv"))) // the provider has money of its own, which no binding message may touch
	vf.SetBalance(signer, balS)
	balProv0 := vf.Balance(prov)
	balOwner0 := vf.Balance(owner)
	vf.SetModuleBalance(types.DepositAccName, depAcc)
	esc0 := inState(vf.Amount("escrow")) // what the request escrow holds is none of a binding message's business
	vf.SetModuleBalance(types.RequestAccName, esc0)
	supply0 := inState(vf.Amount("supplyRest")).Add(depAcc).Add(balS)
	vf.SetSupply(supply0)
	defBefore, _ := k.GetServiceDefinition(ctx, "other")

	// ---- the message
	add := sdk.ZeroInt()
	deposit := sdk.Coins{}
	hasDeposit := false
	if op == opBind || op == opUpdBinding || op == opEnable {
		hasDeposit = op == opBind || vf.Bool("m.hasDeposit")
		if op == opBind && vf.Bool("m.emptyDeposit") {
			hasDeposit = false // an empty coin list passes stateless validation
		}
		if hasDeposit {
			add = vf.Amount("m.deposit")
			vf.Assume(add.IsPositive())
			deposit = coins(add)
		}
	}
	text := ""
	var newPricing types.Pricing
	if op == opBind || (op == opUpdBinding && vf.Bool("m.hasPricing")) {
		if o.MsgDec {
			text = vf.PricingTextDec("m.pricing", 0, 0)
		} else if o.MsgPlain {
			text = vf.PricingText("m.pricing", 0, 0)
		} else if o.MsgLoose {
			text = vf.PricingTextLoose("m.pricing", o.NT, o.NV)
		} else {
			text = vf.PricingText("m.pricing", o.NT, o.NV)
		}
		var p types.Pricing
		var perr error
		// (if the parser itself panics on the text, so will the handler: the message is delivered all the same)
		if !vf.Try(func() { p, perr = k.ParsePricing(ctx, text) }) {
			vf.Assume(perr == nil)
		}
		newPricing = p
	}
	qos := uint64(0)
	if op == opBind || op == opUpdBinding {
		qos = vf.Uint64("m.qos")
	}
	var msg sdk.Msg
	switch op {
	case opBind:
		msg = types.NewMsgBindService(Svc, prov, deposit, text, qos, "{}", signer)
	case opUpdBinding:
		msg = types.NewMsgUpdateServiceBinding(Svc, prov, deposit, text, qos, "{}", signer)
	case opEnable:
		msg = types.NewMsgEnableServiceBinding(Svc, prov, deposit, signer)
	case opDisable:
		msg = types.NewMsgDisableServiceBinding(Svc, prov, signer)
	case opRefund:
		msg = types.NewMsgRefundServiceDeposit(Svc, prov, signer)
	}
	vf.Assume(msg.ValidateBasic() == nil)

	_, err, panicked := vf.Deliver(ctx, service.NewHandler(k), msg)
	chk("C20", !panicked, "binding-msg-no-panic")
	vf.Assume(!panicked)

	post, found := k.GetServiceBinding(ctx, Svc, prov)
	depAcc1 := vf.ModuleBalance(types.DepositAccName)
	balS1 := vf.Balance(signer)
	// ---- general clauses
	chk("C13 C05", k.GetWithdrawAddress(ctx, owner).Equals(wa), "withdraw-address-untouched-by-binding-messages")
	chk("C15", found == vf.Or(present, vf.And(op == opBind, err == nil)), "binding-exists-iff-bound")
	chk("C05", vf.Implies(reserved, err != nil), "module-reserved-service-cannot-be-bound")
	chk("C05", vf.Implies(vf.And(err == nil, vf.Or(present, owned)), rightful), "only-the-owner-acts")
	chk("C03 C04", vf.Supply().Equal(supply0), "no-burn-by-binding-messages")
	chk("C01 C02 C03", vf.ModuleBalance(types.RequestAccName).Equal(esc0), "escrow-untouched-by-binding-messages")
	defAfter, defOK := k.GetServiceDefinition(ctx, "other")
	chk("C15", vf.All(defOK, defAfter.Schemas == defBefore.Schemas, defAfter.Author.Equals(defBefore.Author)), "definitions-untouched")
	if owned {
		ob, _ := k.GetServiceBinding(ctx, "other", prov)
		chk("C03 C15", vf.All(ob.Deposit.AmountOf(Denom).Equal(other.Deposit), ob.Available == other.Available, ob.Owner.Equals(owner)), "other-binding-untouched")
	}
	if !rightful {
		chk("C05", balOwner0.Equal(vf.Balance(owner)), "owner-not-debited-by-stranger")
	}
	// a binding message debits its signer only: the provider's own account is never touched
	chk("C05 C03", vf.Or(prov.Equals(signer), vf.Balance(prov).GTE(balProv0)), "provider-account-not-debited")
	if err != nil {
		vf.Reach("rejected")
		chk("C03 C05", vf.All(depAcc1.Equal(depAcc), balS1.Equal(balS)), "rejected-no-money-moves")
		if present {
			chk("C15 C14 C03", vf.All(post.Deposit.AmountOf(Denom).Equal(pre.Deposit), post.Available == pre.Available, post.Pricing == pre.Text, post.QoS == pre.QoS, post.DisabledTime.Equal(pre.DisabledTime)), "rejected-binding-unchanged")
			// what later blocks will charge is the committed price, whatever a rejected message carried
			chk("C15 C14 C07 C20", k.GetPricing(ctx, Svc, prov).Price.AmountOf(Denom).Equal(pre.Pricing.Price.AmountOf(Denom)), "rejected-message-leaves-price-terms")
		}
		return
	}
	vf.Reach("accepted")
	vf.Assume(found)
	newDep := post.Deposit.AmountOf(Denom)
	// custody: the deposit account moves by exactly what the recorded deposit of this binding moves
	preDep := sdk.ZeroInt()
	if present {
		preDep = pre.Deposit
	}
	chk("C03 C20 C04", depAcc1.Sub(depAcc).Equal(newDep.Sub(preDep)), "deposit-account-follows-the-recorded-deposit")
	// identity and indexes (D)
	chk("C15", vf.All(post.ServiceName == Svc, post.Provider.Equals(prov), post.Owner.Equals(owner) || !present && !owned), "binding-identity")
	own, hasOwn := k.GetOwner(ctx, prov)
	chk("C15 C05 C13", vf.And(hasOwn, own.Equals(post.Owner)), "provider-has-one-owner")
	chk("C15 C17 C13", vf.All(vf.Store(ctx).Has(types.GetOwnerServiceBindingKey(post.Owner, Svc, prov)), vf.Store(ctx).Has(types.GetOwnerProviderKey(post.Owner, prov))), "owner-indexes-present")
	// names are case-sensitive keys: the binding is not visible under another spelling of its service's name
	_, seenUp := k.GetServiceBinding(ctx, SvcUp, prov)
	chk("C15 C05 C18", !seenUp, "binding-not-visible-under-another-spelling-of-the-name")
	lst := k.GetOwnerServiceBindings(ctx, post.Owner, Svc)
	chk("C15 C17", len(lst) == 1, "binding-listed-for-its-owner")
	stored := k.GetPricing(ctx, Svc, prov)
	reparsed, rerr := k.ParsePricing(ctx, post.Pricing)
	chk("C15 C07 C06 C04 C14", vf.And(rerr == nil, stored.Price.AmountOf(Denom).Equal(reparsed.Price.AmountOf(Denom))), "stored-price-matches-published-text")
	samePromos := vf.And(len(stored.PromotionsByTime) == len(reparsed.PromotionsByTime), len(stored.PromotionsByVolume) == len(reparsed.PromotionsByVolume))
	if len(stored.PromotionsByTime) == len(reparsed.PromotionsByTime) && len(stored.PromotionsByVolume) == len(reparsed.PromotionsByVolume) {
		for i := range stored.PromotionsByTime {
			a, c := stored.PromotionsByTime[i], reparsed.PromotionsByTime[i]
			samePromos = vf.All(samePromos, a.StartTime.Equal(c.StartTime), a.EndTime.Equal(c.EndTime), a.Discount.Equal(c.Discount))
		}
		for i := range stored.PromotionsByVolume {
			a, c := stored.PromotionsByVolume[i], reparsed.PromotionsByVolume[i]
			samePromos = vf.All(samePromos, a.Volume == c.Volume, a.Discount.Equal(c.Discount))
		}
	}
	chk("C15 C07", samePromos, "stored-promotions-match-published-text")
	chk("C15", post.Validate() == nil, "stored-binding-is-valid")
	// MIN
	price := stored.Price.AmountOf(Denom)
	// (a binding left below a minimum that the parameters raised afterwards is re-examined when its price or
	// deposit changes or when it is enabled; an update of the response time alone re-examines nothing)
	touched := op != opUpdBinding || hasDeposit || text != ""
	chk("C14", vf.Implies(vf.And(post.Available, touched || !o.AnyDeposit), newDep.GTE(MinDepositRef(k, ctx, price))), "available-holds-minimum-for-its-price")
	switch op {
	case opBind:
		chk("C15 C03", vf.All(defined, !present), "bind-needs-definition-and-no-duplicate")
		chk("C03", vf.All(newDep.Equal(add), depAcc1.Sub(depAcc).Equal(add), balS.Sub(balS1).Equal(add)), "bind-moves-deposit-into-custody")
		chk("C14 C03", vf.All(post.Available, post.DisabledTime.IsZero(), post.QoS == qos, post.Pricing == text), "bind-creates-available-binding")
		chk("C08 C06", vf.And(qos >= 1, qos <= uint64(vf.Params(ctx).MaxRequestTimeout)), "qos-within-bounds")
		_ = newPricing
	case opUpdBinding:
		chk("C03", vf.All(newDep.Equal(pre.Deposit.Add(add)), depAcc1.Sub(depAcc).Equal(add), balS.Sub(balS1).Equal(add)), "update-adds-exactly-the-sent-deposit")
		chk("C15 C09", vf.All(post.Available == pre.Available, post.DisabledTime.Equal(pre.DisabledTime)), "update-keeps-availability")
		if text != "" {
			chk("C15 C07", post.Pricing == text, "update-publishes-new-pricing")
		} else {
			chk("C15 C07", post.Pricing == pre.Text, "update-keeps-pricing")
		}
	case opEnable:
		chk("C03", vf.All(newDep.Equal(pre.Deposit.Add(add)), depAcc1.Sub(depAcc).Equal(add), balS.Sub(balS1).Equal(add)), "enable-adds-exactly-the-sent-deposit")
		chk("C14 C03", vf.All(!pre.Available, post.Available, post.DisabledTime.IsZero()), "enable-only-unavailable")
	case opDisable:
		chk("C03", vf.All(newDep.Equal(pre.Deposit), depAcc1.Equal(depAcc), balS1.Equal(balS)), "disable-moves-no-money")
		chk("C03 C04", vf.All(pre.Available, !post.Available, post.DisabledTime.Equal(now)), "disable-records-block-time")
	case opRefund:
		refundable := pre.DisabledTime.Add(vf.Params(ctx).ArbitrationTimeLimit).Add(vf.Params(ctx).ComplaintRetrospect)
		chk("C03", vf.All(!pre.Available, pre.Deposit.IsPositive(), !now.Before(refundable)), "refund-only-when-unavailable-nonzero-and-due")
		chk("C03", vf.All(newDep.IsZero(), depAcc.Sub(depAcc1).Equal(pre.Deposit), balS1.Sub(balS).Equal(pre.Deposit)), "refund-pays-whole-deposit-to-owner")
		chk("C03 C14", vf.All(!post.Available, post.DisabledTime.Equal(pre.DisabledTime)), "refund-keeps-binding-unavailable")
	}
	_ = time.Time{}
}
