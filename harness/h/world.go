package h

import (
	"time"

	sdk "github.com/cosmos/cosmos-sdk/types"
	tmbytes "github.com/tendermint/tendermint/libs/bytes"

	"github.com/irismod/service/keeper"
	"github.com/irismod/service/types"

	"vh/vf"
)

// ---------------------------------------------------------------- scene builders
//
// A scene is a symbolic pre-state installed through the real setters. Scalars
// (amounts, heights, flags, addresses, ids) are symbolic; list lengths and the
// number of records are enumerated with vf.Choice. What a builder relates
// (e.g. the deposit account holding the sum of deposits plus an arbitrary
// remainder) is the state invariant of DESIGN.md section 5.

const (
	Svc      = "svc"
	SvcUp    = "SVC"
	Denom    = "stake"
	InputOK  = `{"header":{}}`
	OutputOK = `{"header":{},"body":{}}`
	// OutputBad is valid JSON that violates the output schema ("header" is required)
	OutputBad = `{"body":{}}`
	ResultOK  = `{"code":200,"message":""}`
	ResultErr = `{"code":400,"message":"no"}`
	Schemas   = `{"input":{"type":"object"},"output":{"type":"object"}}`
)

const maxH = int64(1) << 40 // heights, timeouts, frequencies stay far from 64-bit wrap

func coins(amt sdk.Int) sdk.Coins {
	return sdk.Coins{sdk.Coin{Denom: Denom, Amount: amt}}
}

// coinsOrEmpty renders an amount as valid Coins (no zero coins)
func coinsOrEmpty(amt sdk.Int) sdk.Coins {
	if amt.IsZero() {
		return sdk.Coins{}
	}
	return coins(amt)
}

// Block gives the context an arbitrary height and block time.
func Block(ctx sdk.Context) (sdk.Context, int64, time.Time) {
	h := vf.Int64("H")
	vf.Assume(vf.And(h >= 1, h < maxH))
	t := vf.Time("T")
	return ctx.WithBlockHeight(h).WithBlockTime(t), h, t
}

func Define(k keeper.Keeper, ctx sdk.Context, name string) {
	k.SetServiceDefinition(ctx, types.NewServiceDefinition(name, "", nil, sdk.AccAddress("author______________"), "", Schemas))
}

type BindingSpec struct {
	Provider, Owner sdk.AccAddress
	Deposit         sdk.Int
	Text            string
	Pricing         types.Pricing
	QoS             uint64
	Available       bool
	DisabledTime    time.Time
	Present         bool
}

// MinDepositRef is the harness's reference for the minimum deposit of a price.
func MinDepositRef(k keeper.Keeper, ctx sdk.Context, price sdk.Int) sdk.Int {
	// from the parameters as stored, not as the keeper's getters (code under test) report them
	prm := vf.Params(ctx)
	need := price.Mul(sdk.NewInt(prm.MinDepositMultiple))
	minParam := prm.MinDeposit.AmountOf(Denom)
	return sdk.MaxInt(need, minParam)
}

// Binding installs a binding of service svc with symbolic deposit, pricing, QoS and availability
// (nT/nV promotions), satisfying the binding invariants (MIN, D).
// noMinAssumed: the builders normally assume that an available binding holds the minimum deposit for its
// price (MIN); scenes about slashing drop the assumption, because a parameter change (minimum deposit or
// multiple raised by governance) leaves available bindings below the new minimum until their next slash.
var noMinAssumed bool

// hugeMode: the scene models the SDK's 255-bit range checks (vf.CheckOverflow). What is in the state is then
// bounded the way a real chain bounds it - no account, deposit or stored price beyond 2^127 (the total supply
// is far below that) - while the amounts a message carries stay free up to the 255 bits an sdk.Int can hold.
var hugeMode bool

func two64() sdk.Int  { return sdk.NewIntFromUint64(1 << 63).MulRaw(2) }
func two127() sdk.Int { return two64().Mul(sdk.NewIntFromUint64(1 << 63)) }

// inState assumes the bound on an amount held in the state when the range checks are modelled
func inState(x sdk.Int) sdk.Int {
	if hugeMode {
		vf.Assume(x.LT(two127()))
	}
	return x
}

// resetGlobals puts the package's mode switches back to their initial values. The engine starts every path from
// the package's initial state; natively many replays run in one process, and a switch left on by one harness
// (priceDenom by the exchange scene, hugeMode by the huge-amount scenes) would change what the next one builds.
func resetGlobals() {
	focus, callHuge, noMinAssumed, hugeMode, priceDenom = "", false, false, false, Denom
}

// priceDenom: the denomination in which the builders' bindings publish their price (scenes with a host
// application that knows a second token set it; the deposit stays in the base denomination)
var priceDenom = Denom

func Binding(k keeper.Keeper, ctx sdk.Context, tag, svc string, provider, owner sdk.AccAddress, nT, nV int, allowZero bool) BindingSpec {
	b := BindingSpec{Provider: provider, Owner: owner, Present: true}
	b.Deposit = inState(vf.Amount(tag + ".deposit"))
	if !allowZero {
		vf.Assume(b.Deposit.IsPositive())
	}
	if priceDenom == Denom {
		b.Text = vf.PricingText(tag+".pricing", nT, nV)
	} else {
		b.Text = vf.PricingTextIn(tag+".pricing", priceDenom, nT, nV)
	}
	p, err := k.ParsePricing(ctx, b.Text)
	vf.Assume(err == nil)
	vf.Assume(types.ValidatePricing(p) == nil)
	for _, pr := range p.PromotionsByTime { // what is stored went through the protobuf codec: years 1..9999
		vf.Assume(vf.All(!pr.StartTime.Before(time.Time{}), !pr.EndTime.Before(time.Time{}), !pr.StartTime.After(vf.MaxTimestamp()), !pr.EndTime.After(vf.MaxTimestamp())))
	}
	if hugeMode {
		vf.Assume(p.Price.AmountOf(Denom).LT(two64()))
	}
	b.Pricing = p
	b.QoS = vf.Uint64(tag + ".qos")
	// (within the maximum request timeout when it was set; the parameter may have been lowered since)
	vf.Assume(vf.And(b.QoS >= 1, b.QoS < uint64(maxH)))
	b.Available = vf.Bool(tag + ".available")
	b.DisabledTime = vf.Time(tag + ".disabledTime")
	// available bindings hold the minimum deposit (MIN) and carry no disabling time
	if noMinAssumed {
		vf.Assume(vf.Implies(b.Available, b.DisabledTime.IsZero()))
	} else {
		vf.Assume(vf.Implies(b.Available, vf.And(b.DisabledTime.IsZero(), b.Deposit.GTE(MinDepositRef(k, ctx, p.Price.AmountOf(Denom))))))
	}
	dep := coins(b.Deposit)
	if allowZero {
		dep = coinsOrEmpty(b.Deposit)
	}
	rec := types.NewServiceBinding(svc, provider, dep, b.Text, b.QoS, "{}", b.Available, b.DisabledTime, owner)
	k.SetServiceBinding(ctx, rec)
	k.SetOwnerServiceBinding(ctx, rec)
	k.SetPricing(ctx, svc, provider, p)
	k.SetOwner(ctx, provider, owner)
	k.SetOwnerProvider(ctx, owner, provider)
	return b
}

// RefPrice is the harness's reference fee: max(1, trunc(base x discountByTime x discountByVolume)).
func RefPrice(p types.Pricing, now time.Time, volume uint64) sdk.Int {
	dT, dV := RefDiscounts(p, now, volume)
	fee := sdk.NewDecFromInt(p.Price.AmountOf(Denom)).Mul(dT).Mul(dV).TruncateInt()
	return sdk.MaxInt(fee, sdk.OneInt())
}

// RefDiscounts: the time promotion in effect at now and the volume promotion for the volume delivered so far.
func RefDiscounts(p types.Pricing, now time.Time, volume uint64) (sdk.Dec, sdk.Dec) {
	dT := sdk.OneDec()
	for _, pr := range p.PromotionsByTime {
		if !now.Before(pr.StartTime) && now.Before(pr.EndTime) {
			dT = pr.Discount
			break
		}
	}
	dV := sdk.OneDec()
	for _, pr := range p.PromotionsByVolume {
		if pr.Volume <= volume {
			dV = pr.Discount
		}
	}
	return dT, dV
}

type CtxSpec struct {
	ID tmbytes.HexBytes
	RC types.RequestContext
}

// distinct assumes pairwise different addresses
func distinct(addrs ...sdk.AccAddress) {
	for i := range addrs {
		for j := 0; j < i; j++ {
			vf.Assume(!addrs[i].Equals(addrs[j]))
		}
	}
}

// ---------------------------------------------------------------- events
//
// eventsOf: the events of one type emitted so far on the context's event manager, in order
func eventsOf(ctx sdk.Context, typ string) []sdk.Event {
	var out []sdk.Event
	for _, e := range ctx.EventManager().Events() {
		if e.Type == typ {
			out = append(out, e)
		}
	}
	return out
}

// eventsIn: the events of one type in the result of a delivered message
func eventsIn(res *sdk.Result, typ string) []sdk.Event {
	var out []sdk.Event
	if res == nil {
		return out
	}
	for _, e := range res.Events {
		if e.Type == typ {
			out = append(out, sdk.Event(e))
		}
	}
	return out
}

// attrOf: the value of an event's attribute
func attrOf(e sdk.Event, key string) (string, bool) {
	for _, a := range e.Attributes {
		if string(a.Key) == key {
			return string(a.Value), true
		}
	}
	return "", false
}

func sameCompact(a, b types.CompactRequest) bool {
	return vf.All(string(a.RequestContextId) == string(b.RequestContextId), a.RequestContextBatchCounter == b.RequestContextBatchCounter,
		a.Provider.Equals(b.Provider), a.ServiceFee.AmountOf(Denom).Equal(b.ServiceFee.AmountOf(Denom)), len(a.ServiceFee) == len(b.ServiceFee),
		a.RequestHeight == b.RequestHeight, a.ExpirationHeight == b.ExpirationHeight)
}
