package h

var rsQuick = ReqOpts{MaxProv: 2, OnlyState: -1, OneOutput: true}

func C08_Respond() { focus = "C08"; sceneRespond(rsQuick) }
func C02_Respond() { focus = "C02"; sceneRespond(rsQuick) }
