package h

import (
	sdk "github.com/cosmos/cosmos-sdk/types"

	service "github.com/irismod/service"
	"github.com/irismod/service/types"

	"vh/vf"
)

// queueInv is clause Q for one context: a running context has exactly one pending event, no context
// has two events of one kind, pending events are not in the past and pointer and queue entry agree.
func queueInv(k keeperT, ctx sdk.Context, id []byte, rc types.RequestContext, h int64, expH, newH int64, hadExp, hadNew bool) bool {
	hasE := k.HasRequestBatchExpiration(ctx, id)
	hasN := k.HasNewRequestBatch(ctx, id)
	one := vf.Implies(rc.State == types.RUNNING, hasE != hasN)
	// each queue holds exactly as many entries of the context as its pointer says (0 or 1), at the expected height
	nE, nN := queued(ctx, types.ExpiredRequestBatchKey, id), queued(ctx, types.NewRequestBatchKey, id)
	return vf.All(one, nE == b2i(hasE), nN == b2i(hasN), vf.Implies(hasE, vf.And(hadExp, expiryAt(k, ctx, id, expH))), vf.Implies(hasN && hadNew, newBatchAt(k, ctx, id, newH)))
}

// queued counts the entries of a queue (expiry 0x09 / new batch 0x10) that refer to the context
func queued(ctx sdk.Context, prefix []byte, id []byte) int {
	n := 0
	it := sdk.KVStorePrefixIterator(vf.Store(ctx), prefix)
	for ; it.Valid(); it.Next() {
		key := it.Key()
		if len(key) == 1+8+len(id) && string(key[9:]) == string(id) {
			n++
		}
	}
	it.Close()
	return n
}

func b2i(b bool) int {
	if b {
		return 1
	}
	return 0
}

const (
	opPause = iota
	opStart
	opKill
	opUpdate
)

// sceneCtxMsg: pause / start / kill / update sent through the handler to a context in any
// lifecycle situation (batch in flight, next batch pending, idle), by its consumer or a stranger.
func sceneCtxMsg(op int, o ReqOpts) {
	sit := vf.Choice("situation", 3) // 0: batch in flight, 1: next batch pending, 2: idle
	o.Batch = sit == 0
	o.AllBound = true
	o.NoSlash = true
	o.OneOutput = true
	s := NewReqScene(o)
	k, ctx, id, pre := s.K, s.Ctx, s.ID, s.Pre
	newH := int64(0)
	switch sit {
	case 1:
		newH = vf.Int64("newH")
		vf.Assume(vf.And(newH >= s.H, newH < maxH))
		k.AddNewRequestBatch(ctx, id, newH)
		s.counterRoom()
	case 2:
		// idle: only a context that is not running has no pending event
		vf.Assume(pre.State != types.RUNNING)
		s.counterRoom()
	}
	hadExp, hadNew := sit == 0, sit == 1

	signer := s.Consumer
	rightful := vf.Bool("signedByConsumer")
	if !rightful {
		signer = vf.Addr("stranger", 20)
		vf.Assume(!signer.Equals(s.Consumer))
	}
	target := id
	if !vf.Bool("knownContext") {
		target = vf.Bytes("otherCtx", types.ContextIDLen)
		vf.Assume(string(target) != string(id))
	}
	var msg sdk.Msg
	var uProv []sdk.AccAddress
	uCap := sdk.Coins{}
	var uTimeout int64
	var uFreq uint64
	var uTotal int64
	switch op {
	case opPause:
		msg = types.NewMsgPauseRequestContext(target, signer)
	case opStart:
		msg = types.NewMsgStartRequestContext(target, signer)
	case opKill:
		msg = types.NewMsgKillRequestContext(target, signer)
	case opUpdate:
		if vf.Bool("u.providers") {
			uProv = []sdk.AccAddress{vf.Addr("u.prov", 20)}
		}
		if vf.Bool("u.cap") {
			a := vf.Amount("u.capAmt")
			vf.Assume(a.IsPositive())
			uCap = coins(a)
		}
		uTimeout = vf.Int64("u.timeout")
		uFreq = vf.Uint64("u.freq")
		uTotal = vf.Int64("u.total")
		vf.Assume(vf.All(uTimeout < maxH, uFreq < uint64(maxH), uTotal < maxH))
		msg = types.NewMsgUpdateRequestContext(target, uProv, uCap, uTimeout, uFreq, uTotal, signer)
	}
	vf.Assume(msg.ValidateBasic() == nil)
	balSigner0 := vf.Balance(signer)
	esc0 := vf.ModuleBalance(types.RequestAccName)

	_, err, panicked := vf.Deliver(ctx, service.NewHandler(k), msg)
	chk("C20", !panicked, "ctxmsg-no-panic")
	vf.Assume(!panicked)

	post, found := k.GetRequestContext(ctx, id)
	chk("C09 C16 C08 C01 C02 C11", found, "ctx-kept")
	vf.Assume(found)
	chk("C05", vf.Implies(err == nil, vf.All(rightful, string(target) == string(id), pre.ModuleName == "")), "only-consumer-and-never-a-module-context")
	chk("C05 C01", vf.All(vf.Balance(signer).Equal(balSigner0), vf.ModuleBalance(types.RequestAccName).Equal(esc0), vf.Balance(s.Consumer).Equal(s.BalC0)), "no-money-moves")
	chk("C09", immutableCtx(pre, post), "ctx-immutable-fields")
	chk("C09 C10", post.BatchCounter == pre.BatchCounter, "counter-untouched-by-messages")
	chk("C12 C08 C02 C01 C16 C04", vf.All(post.BatchState == pre.BatchState, post.BatchRequestCount == pre.BatchRequestCount, post.BatchResponseCount == pre.BatchResponseCount, post.BatchResponseThreshold == pre.BatchResponseThreshold), "batch-bookkeeping-untouched")
	nreq, nresp, nact := countRecords(k, ctx, id, pre.BatchCounter)
	nact0 := 0
	for j := 0; j < s.M; j++ {
		if s.Active[j] {
			nact0++
		}
	}
	chk("C08 C16", vf.All(nreq == s.M, nresp == s.M-nact0, nact == nact0), "requests-untouched-by-context-messages")
	chk("C09", vf.Implies(pre.State == types.COMPLETED, post.State == types.COMPLETED), "completed-is-final")

	if err != nil {
		vf.Reach("rejected")
		chk("C05 C09", vf.All(post.State == pre.State, post.Timeout == pre.Timeout, post.RepeatedFrequency == pre.RepeatedFrequency, post.RepeatedTotal == pre.RepeatedTotal), "rejected-changes-nothing")
		chk("C11 C10 C08 C02 C01 C12 C16 C04", vf.All(k.HasRequestBatchExpiration(ctx, id) == hadExp, k.HasNewRequestBatch(ctx, id) == hadNew), "rejected-queues-unchanged")
		return
	}
	vf.Reach("accepted")
	maxTotal, unbounded := s.MaxTotal, s.Unbounded
	switch op {
	case opPause:
		chk("C09 C10", vf.All(pre.Repeated, pre.State == types.RUNNING, post.State == types.PAUSED), "pause-only-repeated-running")
		chk("C11 C10 C08 C02 C01 C12 C16 C04", vf.All(k.HasRequestBatchExpiration(ctx, id) == hadExp, k.HasNewRequestBatch(ctx, id) == hadNew), "pause-keeps-queues")
	case opStart:
		chk("C09", vf.All(pre.State == types.PAUSED, post.State == types.RUNNING), "start-only-paused")
		if sit == 2 {
			chk("C11 C10 C08 C02 C01 C12 C16 C04", newBatchAt(k, ctx, id, s.H), "start-of-idle-context-queues-batch-now")
		} else {
			chk("C11 C10 C08 C02 C01 C12 C16 C04", vf.All(k.HasRequestBatchExpiration(ctx, id) == hadExp, k.HasNewRequestBatch(ctx, id) == hadNew), "start-keeps-pending-event")
		}
	case opKill:
		chk("C09", vf.All(pre.Repeated, post.State == types.COMPLETED), "kill-only-repeated")
		chk("C11 C10 C08 C02 C01 C12 C16 C04", vf.All(k.HasRequestBatchExpiration(ctx, id) == hadExp, k.HasNewRequestBatch(ctx, id) == hadNew), "kill-keeps-queues")
	case opUpdate:
		chk("C09", vf.All(pre.State != types.COMPLETED, post.State == pre.State), "update-never-on-completed")
		chk("C10 C11 C08", vf.Implies(post.Repeated, post.RepeatedFrequency >= uint64(post.Timeout)), "frequency-at-least-timeout")
		// a timeout set by the message is within the maximum in force; otherwise the timeout is kept
		chk("C08", vf.And(post.Timeout >= 1, vf.Or(vf.And(uTimeout != 0, post.Timeout == uTimeout && uTimeout <= vf.Params(ctx).MaxRequestTimeout), vf.And(uTimeout == 0, post.Timeout == pre.Timeout))), "timeout-within-bounds")
		chk("C11 C10 C08 C02 C01 C12 C16 C04", vf.All(k.HasRequestBatchExpiration(ctx, id) == hadExp, k.HasNewRequestBatch(ctx, id) == hadNew), "update-keeps-queues")
		chk("C06", vf.All(len(post.Providers) >= 1, post.ServiceFeeCap.AmountOf(Denom).IsPositive()), "providers-and-cap-stay-valid")
		if post.RepeatedTotal > maxTotal {
			maxTotal = post.RepeatedTotal
		}
		unbounded = vf.Or(unbounded, post.RepeatedTotal == -1)
	}
	// Q after the step
	chk("C11 C10 C08 C02 C01 C12 C16 C04", queueInv(k, ctx, id, post, s.H, s.ExpH, func() int64 {
		if sit == 2 {
			return s.H
		}
		return newH
	}(), hadExp, hadNew || sit == 2), "queue-invariant")
	// C10: counter against the largest total ever in force; strictly below while a batch is still to come
	chk("C10", vf.Implies(vf.And(post.Repeated, !unbounded), int64(post.BatchCounter) <= maxTotal), "counter-within-largest-total")
	chk("C10", vf.Implies(vf.All(post.Repeated, !unbounded, k.HasNewRequestBatch(ctx, id)), int64(post.BatchCounter) < maxTotal), "pending-batch-has-room")
	chk("C10", vf.Implies(vf.And(!post.Repeated, k.HasNewRequestBatch(ctx, id)), post.BatchCounter == 0), "one-shot-pending-batch-is-first")
}
