package h

import (
	"fmt"
	"os"
	"path/filepath"
	"runtime/debug"
	"sort"
	"strings"
	"testing"

	"vh/vf"
)

// TestReplay runs harnesses natively on the inputs of counterexample / witness files
// (VF_REPLAY = one file or a directory of *.json).
func TestReplay(t *testing.T) {
	target := os.Getenv("VF_REPLAY")
	if target == "" {
		t.Skip("VF_REPLAY not set")
	}
	var files []string
	if st, err := os.Stat(target); err == nil && st.IsDir() {
		files, _ = filepath.Glob(filepath.Join(target, "*.json"))
		sort.Strings(files)
	} else {
		files = []string{target}
	}
	for _, f := range files {
		replayOne(f)
	}
}

func replayOne(f string) {
	vf.Load(f)
	// a counterexample that depends on Go's map iteration order cannot be forced natively:
	// the harness is repeated (the order is re-randomised on every range) until the violation shows
	tries := 1
	for k := range vf.R.Choices {
		if strings.HasPrefix(k, "maporder#") {
			tries = 64
		}
	}
	for t := 1; t < tries; t++ {
		if runOnce(f, true) {
			return
		}
		vf.Load(f)
	}
	runOnce(f, false)
}

// runOnce runs the harness; with quiet it only reports (and returns true on) a reproduced violation
func runOnce(f string, quiet bool) bool {
	fn, ok := Harnesses[vf.R.Harness]
	if !ok {
		fmt.Printf("REPLAY %s NO-HARNESS %s\n", f, vf.R.Harness)
		return true
	}
	var escaped interface{}
	func() {
		defer func() {
			if escaped = recover(); escaped != nil {
				if _, stop := escaped.(vf.StopReplay); stop {
					escaped = nil
					return
				}
				fmt.Printf("%s\n", debug.Stack())
			}
		}()
		resetGlobals()
		fn()
	}()
	if escaped != nil {
		if !quiet {
			fmt.Printf("REPLAY %s HARNESS-PANIC %v\n", f, escaped)
		}
		return false
	}
	if vf.R.Clause == "" { // witness of a completed path: everything the engine assumed and proved must hold natively
		if len(vf.Unmet) == 0 && len(vf.Failed) == 0 {
			fmt.Printf("REPLAY %s WITNESS-OK\n", f)
		} else {
			fmt.Printf("REPLAY %s WITNESS-MISMATCH failed=%v unmet-assumptions=%v\n", f, vf.Failed, vf.Unmet)
		}
		return true
	}
	for _, c := range vf.Failed {
		if c == vf.R.Clause {
			if len(vf.Unmet) > 0 {
				if !quiet {
					fmt.Printf("REPLAY %s NOT-REPRODUCED assumptions unmet natively: %v\n", f, vf.Unmet)
				}
				return false
			}
			fmt.Printf("REPLAY %s REPRODUCED clause=%s\n", f, c)
			return true
		}
	}
	if !quiet {
		fmt.Printf("REPLAY %s NOT-REPRODUCED failed=[%s] unmet-assumptions=%v\n", f, strings.Join(vf.Failed, ","), vf.Unmet)
	}
	return false
}
