package h

import (
	"fmt"
	"os"
	"path/filepath"
	"runtime/debug"
	"sort"
	"strings"
	"testing"

	"vh/vf"
)

// TestReplay runs harnesses natively on the inputs of counterexample / witness files
// (VF_REPLAY = one file or a directory of *.json).
func TestReplay(t *testing.T) {
	target := os.Getenv("VF_REPLAY")
	if target == "" {
		t.Skip("VF_REPLAY not set")
	}
	var files []string
	if st, err := os.Stat(target); err == nil && st.IsDir() {
		files, _ = filepath.Glob(filepath.Join(target, "*.json"))
		sort.Strings(files)
	} else {
		files = []string{target}
	}
	for _, f := range files {
		replayOne(f)
	}
}

func replayOne(f string) {
	vf.Load(f)
	fn, ok := Harnesses[vf.R.Harness]
	if !ok {
		fmt.Printf("REPLAY %s NO-HARNESS %s\n", f, vf.R.Harness)
		return
	}
	var escaped interface{}
	func() {
		defer func() {
			if escaped = recover(); escaped != nil {
				fmt.Printf("%s\n", debug.Stack())
			}
		}()
		fn()
	}()
	if escaped != nil {
		fmt.Printf("REPLAY %s HARNESS-PANIC %v\n", f, escaped)
		return
	}
	if vf.R.Clause == "" { // witness of a completed path: everything the engine assumed and proved must hold natively
		if len(vf.Unmet) == 0 && len(vf.Failed) == 0 {
			fmt.Printf("REPLAY %s WITNESS-OK\n", f)
		} else {
			fmt.Printf("REPLAY %s WITNESS-MISMATCH failed=%v unmet-assumptions=%v\n", f, vf.Failed, vf.Unmet)
		}
		return
	}
	for _, c := range vf.Failed {
		if c == vf.R.Clause {
			if len(vf.Unmet) > 0 {
				fmt.Printf("REPLAY %s NOT-REPRODUCED assumptions unmet natively: %v\n", f, vf.Unmet)
				return
			}
			fmt.Printf("REPLAY %s REPRODUCED clause=%s\n", f, c)
			return
		}
	}
	fmt.Printf("REPLAY %s NOT-REPRODUCED failed=[%s] unmet-assumptions=%v\n", f, strings.Join(vf.Failed, ","), vf.Unmet)
}
