package h

import (
	tmbytes "github.com/tendermint/tendermint/libs/bytes"

	sdk "github.com/cosmos/cosmos-sdk/types"

	service "github.com/irismod/service"
	"github.com/irismod/service/types"

	"vh/vf"
)

// sceneRestart: frequency == timeout, so the batch that expires in this block is followed by the
// next batch start in the same EndBlocker (expiry loop first, then new-batch loop).
func sceneRestart(o ReqOpts) {
	o.Batch, o.AtExpiry, o.AllBound, o.Restart, o.NoSlash, o.OneOutput, o.OnlyState = true, true, true, true, true, true, 0
	s := NewReqScene(o)
	k, ctx, id, pre := s.K, s.Ctx, s.ID, s.Pre
	bc := pre.BatchCounter
	vf.Assume(vf.All(pre.Repeated, pre.RepeatedFrequency == uint64(pre.Timeout), vf.Or(pre.RepeatedTotal < 0, int64(bc) < pre.RepeatedTotal)))

	panicked := vf.Try(func() { service.EndBlocker(ctx, k) })
	chk("C20", !panicked, "endblock-no-panic")
	vf.Assume(!panicked)

	post, found := k.GetRequestContext(ctx, id)
	chk("C09 C16", found, "ctx-kept")
	vf.Assume(found)
	refund := sdk.ZeroInt()
	for j := 0; j < s.M; j++ {
		if s.Active[j] && !pre.SuperMode {
			refund = refund.Add(s.Fee[j])
		}
	}
	// fees of the requests of the new batch, read back from the store
	newFees := sdk.ZeroInt()
	nNew := 0
	it := k.RequestsIteratorByReqCtx(ctx, id, bc+1)
	for ; it.Valid(); it.Next() {
		rid := it.Key()[1:]
		r, _ := k.GetCompactRequest(ctx, rid)
		newFees = newFees.Add(r.ServiceFee.AmountOf(Denom))
		chk("C08 C16", vf.And(k.IsRequestActive(ctx, rid), r.ExpirationHeight == s.H+pre.Timeout), "new-request-pending-until-its-expiry")
		nNew++
	}
	it.Close()
	nOld, nOldResp, nOldAct := countRecords(k, ctx, id, bc)
	chk("C16", vf.All(nOld == 0, nOldResp == 0, nOldAct == 0), "old-batch-removed")
	chk("C01 C02", vf.ModuleBalance(types.RequestAccName).Sub(s.Esc0).Equal(newFees.Sub(refund)), "escrow-delta-is-new-fees-minus-refunds")
	chk("C02 C01", vf.Balance(s.Consumer).Sub(s.BalC0).Equal(refund.Sub(newFees)), "consumer-delta-is-refunds-minus-new-fees")
	hasE, hasN := k.HasRequestBatchExpiration(ctx, id), k.HasNewRequestBatch(ctx, id)
	chk("C11", vf.Implies(post.State == types.RUNNING, vf.All(hasE, !hasN, expiryAt(k, ctx, id, s.H+pre.Timeout))), "running-context-has-exactly-its-new-expiry")
	chk("C11 C09", vf.Implies(post.State != types.RUNNING, vf.All(!hasE, !hasN, post.State == types.PAUSED, post.BatchCounter == bc)), "otherwise-paused-for-funds-and-idle")
	chk("C10 C09", vf.Implies(post.State == types.RUNNING, vf.All(post.BatchCounter == bc+1, post.BatchState == types.BATCHRUNNING)), "next-batch-started-exactly-frequency-after-the-previous")
	chk("C12", int(post.BatchRequestCount) == nNew || post.State != types.RUNNING, "request-count-is-new-requests")
	chk("C10", vf.Implies(!s.Unbounded, int64(post.BatchCounter) <= s.MaxTotal), "counter-within-largest-total")
}

// sceneDoubleSlash: two contexts whose single pending requests to the same provider expire in the
// same block: the binding is slashed twice, the second time on the already reduced deposit.
func sceneDoubleSlash() {
	k, ctx := vf.Env()
	ctx, H, now := Block(ctx)
	Define(k, ctx, Svc)
	// the second slash multiplies a deposit that already contains floor(deposit x fraction): with a symbolic
	// fraction that is a product of three unknowns no solver here decides; the fraction is one of four values
	prm := k.GetParams(ctx)
	switch vf.Choice("fraction", 4) {
	case 0:
		prm.SlashFraction = sdk.ZeroDec()
	case 1:
		prm.SlashFraction = sdk.NewDecWithPrec(1, 3)
	case 2:
		prm.SlashFraction = sdk.NewDecWithPrec(5, 1)
	case 3:
		prm.SlashFraction = sdk.OneDec()
	}
	k.SetParams(ctx, prm)
	owner, prov := vf.Addr("owner", 20), vf.Addr("prov", 20)
	c1, c2 := vf.Addr("consumer1", 20), vf.Addr("consumer2", 20)
	distinct(c1, c2)
	b := Binding(k, ctx, "b", Svc, prov, owner, 0, 0, true)
	id1, id2 := vf.Bytes("ctx1", 40), vf.Bytes("ctx2", 40)
	vf.Assume(string(id1) != string(id2))
	fees := []sdk.Int{vf.Amount("fee1"), vf.Amount("fee2")}
	esc := vf.Amount("escrowRest")
	for i, id := range [][]byte{id1, id2} {
		vf.Assume(fees[i].IsPositive())
		cons := c1
		if i == 1 {
			cons = c2
		}
		rc := types.NewRequestContext(Svc, []sdk.AccAddress{prov}, cons, InputOK, coins(fees[i]), 1, false, true, 5, -1,
			1, 1, 0, 1, types.BATCHRUNNING, types.PAUSED, 1, "")
		k.SetRequestContext(ctx, id, rc)
		rid := types.GenerateRequestID(id, 1, H-1, 0)
		k.SetCompactRequest(ctx, rid, types.NewCompactRequest(id, 1, prov, coins(fees[i]), H-1, H))
		k.AddActiveRequest(ctx, Svc, prov, H, rid)
		k.AddRequestBatchExpiration(ctx, id, H)
		esc = esc.Add(fees[i])
	}
	vf.Assume(H >= 2)
	b1, b2 := vf.Amount("bal1"), vf.Amount("bal2")
	vf.SetBalance(c1, b1)
	vf.SetBalance(c2, b2)
	vf.SetModuleBalance(types.RequestAccName, esc)
	depAcc := vf.Amount("depositRest").Add(b.Deposit)
	vf.SetModuleBalance(types.DepositAccName, depAcc)
	supply := vf.Amount("supplyRest").Add(depAcc).Add(esc)
	vf.SetSupply(supply)

	panicked := vf.Try(func() { service.EndBlocker(ctx, k) })
	chk("C20", !panicked, "endblock-no-panic")
	vf.Assume(!panicked)

	d1, a1, av1, dt1 := SlashRef(k, ctx, b, now)
	mid := b
	mid.Deposit, mid.Available, mid.DisabledTime = d1, av1, dt1
	d2, a2, av2, dt2 := SlashRef(k, ctx, mid, now)
	post, _ := k.GetServiceBinding(ctx, Svc, prov)
	chk("C04 C03", post.Deposit.AmountOf(Denom).Equal(d2), "second-slash-applies-to-the-reduced-deposit")
	chk("C04 C14", vf.And(post.Available == av2, post.DisabledTime.Equal(dt2)), "availability-after-two-slashes")
	chk("C03 C04", vf.And(depAcc.Sub(vf.ModuleBalance(types.DepositAccName)).Equal(a1.Add(a2)), supply.Sub(vf.Supply()).Equal(a1.Add(a2))), "both-slashes-burned")
	chk("C02 C01", vf.All(vf.Balance(c1).Sub(b1).Equal(fees[0]), vf.Balance(c2).Sub(b2).Equal(fees[1]), esc.Sub(vf.ModuleBalance(types.RequestAccName)).Equal(fees[0].Add(fees[1]))), "each-consumer-refunded-its-own-fee")
	chk("C14", vf.Implies(post.Available, post.Deposit.AmountOf(Denom).GTE(MinDepositRef(k, ctx, b.Pricing.Price.AmountOf(Denom)))), "available-holds-minimum")
	// both batches are cleaned up and both expiry entries consumed
	for _, id := range [][]byte{id1, id2} {
		n1, n2, n3 := countRecords(k, ctx, id, 1)
		chk("C16 C11 C08", vf.All(n1 == 0, n2 == 0, n3 == 0, !k.HasRequestBatchExpiration(ctx, id), queued(ctx, types.ExpiredRequestBatchKey, id) == 0), "every-batch-expiring-in-the-block-is-processed")
	}
}

// sceneTwoNewBatches: two running contexts of one consumer, each naming its own provider (own price), are
// due for a batch in the same block; they are served in the order of their ids, each one on its own merits:
// issued if the consumer can (still) pay its fee, otherwise paused.
func sceneTwoNewBatches() {
	k, ctx := vf.Env()
	ctx, H, now := Block(ctx)
	Define(k, ctx, Svc)
	owner, consumer := vf.Addr("owner", 20), vf.Addr("consumer", 20)
	provs := []sdk.AccAddress{vf.Addr("prov1", 20), vf.Addr("prov2", 20)}
	distinct(provs...)
	ids := [][]byte{vf.Bytes("ctx1", 40), vf.Bytes("ctx2", 40)}
	vf.Assume(string(ids[0]) != string(ids[1]))
	timeout := vf.Int64("timeout")
	vf.Assume(vf.And(timeout >= 1, timeout < maxH))
	fees := make([]sdk.Int, 2)
	for i := 0; i < 2; i++ {
		b := Binding(k, ctx, "b"+digit(i), Svc, provs[i], owner, 0, 0, false)
		vf.Assume(vf.And(b.Available, uint64(timeout) >= b.QoS))
		fees[i] = RefPrice(b.Pricing, now, 0)
		rc := types.NewRequestContext(Svc, []sdk.AccAddress{provs[i]}, consumer, InputOK, coins(fees[i]), timeout, false, true, uint64(timeout)+5, -1,
			0, 0, 0, 1, types.BATCHCOMPLETED, types.RUNNING, 1, "")
		k.SetRequestContext(ctx, ids[i], rc)
		k.AddNewRequestBatch(ctx, ids[i], H)
	}
	balC := vf.Amount("balConsumer")
	vf.SetBalance(consumer, balC)
	esc := vf.Amount("escrowRest")
	vf.SetModuleBalance(types.RequestAccName, esc)

	panicked := vf.Try(func() { service.EndBlocker(ctx, k) })
	chk("C20", !panicked, "endblock-no-panic")
	vf.Assume(!panicked)

	// reference: process in the order of the queue keys (height, then context id)
	first, second := 0, 1
	if string(ids[1]) < string(ids[0]) {
		first, second = 1, 0
	}
	left := balC
	paid := sdk.ZeroInt()
	for _, i := range []int{first, second} {
		rc, found := k.GetRequestContext(ctx, ids[i])
		chk("C09 C16", found, "context-kept")
		vf.Assume(found)
		n1, _, n3 := countRecords(k, ctx, ids[i], 1)
		if left.GTE(fees[i]) {
			left = left.Sub(fees[i])
			paid = paid.Add(fees[i])
			chk("C10 C09 C06", vf.All(rc.State == types.RUNNING, rc.BatchCounter == 1, rc.BatchState == types.BATCHRUNNING), "a-context-whose-consumer-can-pay-gets-its-batch")
			chk("C11 C10", vf.All(!k.HasNewRequestBatch(ctx, ids[i]), queued(ctx, types.NewRequestBatchKey, ids[i]) == 0, expiryAt(k, ctx, ids[i], H+timeout)), "entry-consumed-and-expiry-queued")
			chk("C06 C16 C12", vf.And(n1 == 1, n3 == 1), "one-pending-request")
		} else {
			chk("C09 C06", vf.All(rc.State == types.PAUSED, rc.BatchCounter == 0, n1 == 0, n3 == 0), "a-context-whose-consumer-cannot-pay-is-paused-without-requests")
			chk("C11", vf.All(!k.HasNewRequestBatch(ctx, ids[i]), !k.HasRequestBatchExpiration(ctx, ids[i])), "paused-context-is-idle")
		}
	}
	chk("C01 C02 C05", vf.And(balC.Sub(vf.Balance(consumer)).Equal(paid), vf.ModuleBalance(types.RequestAccName).Sub(esc).Equal(paid)), "consumer-pays-exactly-the-issued-batches-into-escrow")
}

// scenePauseNoticeKills: a context owned by another module is due for a batch its consumer cannot pay; the
// module reacts to the pause notice by killing its context. What the module did lasts: the context ends
// completed (completed is final), with no request and no charge.
func scenePauseNoticeKills() {
	k, ctx := vf.Env()
	ctx, H, now := Block(ctx)
	Define(k, ctx, Svc)
	owner, consumer, prov := vf.Addr("owner", 20), vf.Addr("consumer", 20), vf.Addr("prov", 20)
	id := vf.Bytes("ctx", 40)
	notices := 0
	_ = k.RegisterResponseCallback(Mod, func(ctx sdk.Context, id tmbytes.HexBytes, outs []string, err error) {})
	_ = k.RegisterStateCallback(Mod, func(ctx sdk.Context, cid tmbytes.HexBytes, cause string) {
		notices++
		rc, _ := k.GetRequestContext(ctx, cid)
		_ = k.KillRequestContext(ctx, cid, rc.Consumer)
	})
	timeout := vf.Int64("timeout")
	vf.Assume(vf.And(timeout >= 1, timeout < maxH))
	b := Binding(k, ctx, "b", Svc, prov, owner, 0, 0, false)
	vf.Assume(vf.And(b.Available, uint64(timeout) >= b.QoS))
	fee := RefPrice(b.Pricing, now, 0)
	rc := types.NewRequestContext(Svc, []sdk.AccAddress{prov}, consumer, InputOK, coins(fee), timeout, false, true, uint64(timeout)+5, -1,
		0, 0, 0, 1, types.BATCHCOMPLETED, types.RUNNING, 1, Mod)
	k.SetRequestContext(ctx, id, rc)
	k.AddNewRequestBatch(ctx, id, H)
	balC := vf.Amount("balConsumer")
	vf.Assume(balC.LT(fee))
	vf.SetBalance(consumer, balC)

	panicked := vf.Try(func() { service.EndBlocker(ctx, k) })
	chk("C20", !panicked, "endblock-no-panic")
	vf.Assume(!panicked)
	post, found := k.GetRequestContext(ctx, id)
	n1, _, n3 := countRecords(k, ctx, id, 1)
	chk("C12", notices == 1, "one-pause-notice")
	chk("C09 C12", vf.And(found, post.State == types.COMPLETED), "what-the-module-does-on-the-pause-notice-lasts")
	chk("C09 C06 C05", vf.All(n1 == 0, n3 == 0, vf.Balance(consumer).Equal(balC)), "no-request-and-no-charge-for-the-killed-context")
}
