package h

import (
	abci "github.com/tendermint/tendermint/abci/types"

	sdk "github.com/cosmos/cosmos-sdk/types"

	"github.com/irismod/service/keeper"
	"github.com/irismod/service/types"

	"vh/vf"
)

func sameRequest(a, b types.Request) bool {
	return vf.All(string(a.Id) == string(b.Id), a.ServiceName == b.ServiceName, a.Provider.Equals(b.Provider), a.Consumer.Equals(b.Consumer),
		a.Input == b.Input, sameCoins(a.ServiceFee, b.ServiceFee), a.SuperMode == b.SuperMode, a.RequestHeight == b.RequestHeight,
		a.ExpirationHeight == b.ExpirationHeight, string(a.RequestContextId) == string(b.RequestContextId), a.RequestContextBatchCounter == b.RequestContextBatchCounter)
}

func sameResponse(a, b types.Response) bool {
	return vf.All(a.Provider.Equals(b.Provider), a.Consumer.Equals(b.Consumer), a.Result == b.Result, a.Output == b.Output,
		string(a.RequestContextId) == string(b.RequestContextId), a.RequestContextBatchCounter == b.RequestContextBatchCounter)
}

// sceneQuery: every query of the gRPC server and of the legacy querier on a state with a context,
// its batch in flight, bindings and earnings; arguments alias existing records or are fresh.
func sceneQuery(o ReqOpts) {
	o.Batch, o.AllBound, o.Earned, o.NoSlash = true, true, true, true
	s := NewReqScene(o)
	k, ctx, id, pre := s.K, s.Ctx, s.ID, s.Pre
	// a second service whose name extends the first one's, bound by provider 0
	Define(k, ctx, Svc+"x")
	bx := Binding(k, ctx, "bx", Svc+"x", s.Provs[0], s.Owner, 0, 0, false)
	// and a third one whose name differs from the first one's only in case (names are case-sensitive keys)
	Define(k, ctx, SvcUp)
	bu := Binding(k, ctx, "bu", SvcUp, s.Provs[0], s.Owner, 0, 0, false)
	stranger := vf.Addr("stranger", 20)
	distinct(append(append([]sdk.AccAddress{}, s.Provs...), stranger, s.Owner, s.Consumer)...)
	gctx := sdk.WrapSDKContext(ctx)
	legacy := keeper.NewQuerier(k, vf.LegacyCdc())
	lq := func(path string, params interface{}) ([]byte, error) {
		return legacy(ctx, []string{path}, abci.RequestQuery{Data: vf.AminoJSON(params)})
	}
	bc := pre.BatchCounter
	switch vf.Choice("query", 12) {
	case 0: // definition
		r, err := k.Definition(gctx, &types.QueryDefinitionRequest{ServiceName: Svc})
		chk("C17", vf.And(err == nil, r != nil), "definition-found")
		if err == nil && r != nil {
			chk("C17", vf.And(r.ServiceDefinition.Name == Svc, r.ServiceDefinition.Schemas == Schemas), "definition-is-the-stored-one")
		}
		ru, err := k.Definition(gctx, &types.QueryDefinitionRequest{ServiceName: SvcUp})
		chk("C17", vf.And(err == nil, ru != nil && ru.ServiceDefinition.Name == SvcUp), "definition-by-its-exact-name")
		_, err = k.Definition(gctx, &types.QueryDefinitionRequest{ServiceName: "nope"})
		chk("C17", err != nil, "unknown-definition-not-found")
		bz, lerr := lq(types.QueryDefinition, types.QueryDefinitionParams{ServiceName: Svc})
		var d types.ServiceDefinition
		chk("C17", vf.And(lerr == nil, vf.FromAminoJSON(bz, &d) == nil), "legacy-definition-found")
		chk("C17", vf.And(d.Name == Svc, d.Schemas == Schemas), "legacy-definition-same")
	case 1: // binding
		r, err := k.Binding(gctx, &types.QueryBindingRequest{ServiceName: Svc, Provider: s.Provs[0]})
		chk("C17", vf.And(err == nil, r != nil), "binding-found")
		if err == nil && r != nil {
			b := *r.ServiceBinding
			chk("C17", vf.All(b.ServiceName == Svc, b.Provider.Equals(s.Provs[0]), b.Deposit.AmountOf(Denom).Equal(s.Binds[0].Deposit), b.Pricing == s.Binds[0].Text, b.QoS == s.Binds[0].QoS, b.Available == s.Binds[0].Available, b.Owner.Equals(s.Owner)), "binding-is-the-stored-one")
			bz, lerr := lq(types.QueryBinding, types.QueryBindingParams{ServiceName: Svc, Provider: s.Provs[0]})
			var lb types.ServiceBinding
			chk("C17", vf.And(lerr == nil, vf.FromAminoJSON(bz, &lb) == nil), "legacy-binding-found")
			chk("C17", sameBinding(lb, b), "legacy-binding-same")
		}
		ru, err := k.Binding(gctx, &types.QueryBindingRequest{ServiceName: SvcUp, Provider: s.Provs[0]})
		chk("C17", vf.And(err == nil, ru != nil && ru.ServiceBinding.ServiceName == SvcUp && ru.ServiceBinding.Deposit.AmountOf(Denom).Equal(bu.Deposit)), "binding-by-its-exact-name")
		_, err = k.Binding(gctx, &types.QueryBindingRequest{ServiceName: Svc, Provider: stranger})
		chk("C17", err != nil, "unknown-binding-not-found")
	case 2: // bindings of a service, optionally of one owner; "svc" must not list "svcx"
		r, err := k.Bindings(gctx, &types.QueryBindingsRequest{ServiceName: Svc})
		chk("C17 C15", vf.And(err == nil, r != nil), "bindings-ok")
		if err == nil && r != nil {
			chk("C17 C15 C18", len(r.ServiceBindings) == s.N, "bindings-of-service-exactly")
			for _, b := range r.ServiceBindings {
				chk("C17 C15 C18", b.ServiceName == Svc, "listed-binding-has-the-service")
			}
		}
		ro, err := k.Bindings(gctx, &types.QueryBindingsRequest{ServiceName: Svc, Owner: s.Owner})
		if err == nil && ro != nil {
			chk("C17 C15 C18", len(ro.ServiceBindings) == s.N, "bindings-of-owner-exactly")
			for _, b := range ro.ServiceBindings {
				chk("C17 C15 C18", vf.And(b.ServiceName == Svc, b.Owner.Equals(s.Owner)), "listed-binding-has-service-and-owner")
			}
		}
		rs, err := k.Bindings(gctx, &types.QueryBindingsRequest{ServiceName: Svc, Owner: stranger})
		chk("C17 C15 C18", vf.And(err == nil, rs != nil && len(rs.ServiceBindings) == 0), "no-bindings-for-a-stranger")
		rx, err := k.Bindings(gctx, &types.QueryBindingsRequest{ServiceName: Svc + "x"})
		chk("C17 C15 C18", vf.And(err == nil, rx != nil && len(rx.ServiceBindings) == 1), "extended-name-lists-only-its-own")
		_ = bx
		ru, err := k.Bindings(gctx, &types.QueryBindingsRequest{ServiceName: SvcUp})
		chk("C17 C15 C18", vf.And(err == nil, ru != nil && len(ru.ServiceBindings) == 1 && ru.ServiceBindings[0].ServiceName == SvcUp), "name-in-another-case-lists-only-its-own")
		ruo, err := k.Bindings(gctx, &types.QueryBindingsRequest{ServiceName: SvcUp, Owner: s.Owner})
		chk("C17 C15 C18", vf.And(err == nil, ruo != nil && len(ruo.ServiceBindings) == 1 && ruo.ServiceBindings[0].ServiceName == SvcUp), "name-in-another-case-lists-only-its-own-by-owner")
		bz, lerr := lq(types.QueryBindings, types.QueryBindingsParams{ServiceName: Svc, Owner: s.Owner})
		var lb []*types.ServiceBinding
		chk("C17", vf.And(lerr == nil, vf.FromAminoJSON(bz, &lb) == nil), "legacy-bindings-ok")
		chk("C17", len(lb) == s.N, "legacy-bindings-same-count")
	case 3: // withdraw address
		r, err := k.WithdrawAddress(gctx, &types.QueryWithdrawAddressRequest{Owner: s.Owner})
		chk("C17", vf.And(err == nil, r != nil && r.WithdrawAddress.Equals(s.Owner)), "withdraw-address-defaults-to-owner")
		// an address that is bound as somebody's provider has its own record (none here: the default is itself)
		rp, err := k.WithdrawAddress(gctx, &types.QueryWithdrawAddressRequest{Owner: s.Provs[0]})
		chk("C17", vf.And(err == nil, rp != nil && rp.WithdrawAddress.Equals(s.Provs[0])), "withdraw-address-of-an-owned-provider-is-its-own")
		wa := vf.Addr("wa", 20)
		k.SetWithdrawAddress(ctx, s.Owner, wa)
		r, err = k.WithdrawAddress(gctx, &types.QueryWithdrawAddressRequest{Owner: s.Owner})
		chk("C17", vf.And(err == nil, r != nil && r.WithdrawAddress.Equals(wa)), "withdraw-address-is-the-stored-one")
		bz, lerr := lq(types.QueryWithdrawAddress, types.QueryWithdrawAddressParams{Owner: s.Owner})
		var la sdk.AccAddress
		chk("C17", vf.All(lerr == nil, vf.FromAminoJSON(bz, &la) == nil, la.Equals(wa)), "legacy-withdraw-address-same")
	case 4: // request context
		r, err := k.RequestContext(gctx, &types.QueryRequestContextRequest{RequestContextId: id})
		chk("C17", vf.And(err == nil, r != nil), "context-ok")
		if err == nil && r != nil {
			chk("C17", sameContext(*r.RequestContext, pre), "context-is-the-stored-one")
		}
		bz, lerr := lq(types.QueryRequestContext, types.QueryRequestContextParams{RequestContextID: id})
		var lc types.RequestContext
		chk("C17", vf.All(lerr == nil, vf.FromAminoJSON(bz, &lc) == nil, sameContext(lc, pre)), "legacy-context-same")
		other := vf.Bytes("otherCtx", 40)
		vf.Assume(string(other) != string(id))
		r, err = k.RequestContext(gctx, &types.QueryRequestContextRequest{RequestContextId: other})
		chk("C17", vf.And(err == nil, r != nil && r.RequestContext.Empty()), "unknown-context-is-empty")
	case 5: // single request, reconstructed from its context
		vf.Assume(s.M >= 1)
		r, err := k.Request(gctx, &types.QueryRequestRequest{RequestId: s.ReqIDs[0]})
		chk("C17", vf.And(err == nil, r != nil), "request-ok")
		want := types.NewRequest(s.ReqIDs[0], Svc, s.Provs[0], s.Consumer, InputOK, coinsOrNil(s.Fee[0], pre.SuperMode), pre.SuperMode, s.ReqH, s.ExpH, id, bc)
		if err == nil && r != nil {
			chk("C17", sameRequest(*r.Request, want), "request-reconstructed-from-context")
		}
		bz, lerr := lq(types.QueryRequest, types.QueryRequestParams{RequestID: s.ReqIDs[0]})
		var lr types.Request
		chk("C17", vf.All(lerr == nil, vf.FromAminoJSON(bz, &lr) == nil, sameRequest(lr, want)), "legacy-request-same")
		other := vf.Bytes("otherReq", types.RequestIDLen)
		for j := 0; j < s.M; j++ {
			vf.Assume(string(other) != string(s.ReqIDs[j]))
		}
		r, err = k.Request(gctx, &types.QueryRequestRequest{RequestId: other})
		chk("C17", vf.And(err == nil, r != nil && r.Request.Empty()), "unknown-request-is-empty")
		_, err = k.Request(gctx, &types.QueryRequestRequest{RequestId: other[:20]})
		chk("C17", err != nil, "malformed-request-id-rejected")
	case 6: // pending requests of a binding
		// another consumer's context also has a request pending with provider 0: two pending requests of one binding
		id2 := vf.Bytes("ctx2", 40)
		vf.Assume(string(id2) != string(id))
		c2 := vf.Addr("consumer2", 20)
		fee2 := vf.Amount("fee2")
		expH2 := vf.Int64("expH2")
		vf.Assume(vf.All(fee2.IsPositive(), s.H >= 2, expH2 >= s.H, expH2 < maxH))
		k.SetRequestContext(ctx, id2, types.NewRequestContext(Svc, []sdk.AccAddress{s.Provs[0]}, c2, InputOK, coins(fee2), 1, false, true, 5, -1, 1, 1, 0, 1, types.BATCHRUNNING, types.RUNNING, 1, ""))
		rid2 := types.GenerateRequestID(id2, 1, s.H-1, 0)
		k.SetCompactRequest(ctx, rid2, types.NewCompactRequest(id2, 1, s.Provs[0], coins(fee2), s.H-1, expH2))
		k.AddActiveRequest(ctx, Svc, s.Provs[0], expH2, rid2)
		for i := 0; i < s.N; i++ {
			r, err := k.Requests(gctx, &types.QueryRequestsRequest{ServiceName: Svc, Provider: s.Provs[i]})
			wantN := 0
			if i < s.M && s.Active[i] {
				wantN = 1
			}
			if i == 0 {
				wantN++
			}
			chk("C17 C18", vf.And(err == nil, r != nil && len(r.Requests) == wantN), "pending-requests-of-binding-exactly")
			if err == nil && r != nil && len(r.Requests) == wantN {
				nOwn, nOther := 0, 0
				for _, q := range r.Requests {
					// every listed request carries its own id: the id names the context, batch and consumer of that request
					chk("C17 C18", vf.All(len(q.Id) == types.RequestIDLen, string(q.Id[:types.ContextIDLen]) == string(q.RequestContextId), q.Provider.Equals(s.Provs[i])), "listed-pending-request-carries-its-own-id")
					if i < s.M && string(q.Id) == string(s.ReqIDs[i]) {
						nOwn++
						chk("C17", q.Consumer.Equals(s.Consumer), "pending-request-is-the-stored-one")
					}
					if string(q.Id) == string(rid2) {
						nOther++
						chk("C17", vf.And(q.Consumer.Equals(c2), q.ServiceFee.AmountOf(Denom).Equal(fee2)), "pending-request-of-the-other-context-is-the-stored-one")
					}
				}
				chk("C17 C18", nOwn+nOther == wantN, "pending-requests-are-the-stored-ones")
			}
			bz, lerr := lq(types.QueryRequests, types.QueryRequestsParams{ServiceName: Svc, Provider: s.Provs[i]})
			var lr []types.Request
			chk("C17", vf.All(lerr == nil, vf.FromAminoJSON(bz, &lr) == nil, len(lr) == wantN), "legacy-pending-requests-same")
			if lerr == nil && len(lr) == wantN && err == nil && r != nil && len(r.Requests) == wantN {
				for j := range lr {
					chk("C17", string(lr[j].Id) == string(r.Requests[j].Id), "legacy-pending-requests-same-ids-in-the-same-order")
				}
			}
		}
		r, err := k.Requests(gctx, &types.QueryRequestsRequest{ServiceName: Svc + "x", Provider: s.Provs[0]})
		chk("C17 C18", vf.And(err == nil, r != nil && len(r.Requests) == 0), "other-service-has-no-pending-requests")
	case 7: // requests and responses of a batch
		r, err := k.RequestsByReqCtx(gctx, &types.QueryRequestsByReqCtxRequest{RequestContextId: id, BatchCounter: bc})
		chk("C17 C18", vf.And(err == nil, r != nil && len(r.Requests) == s.M), "requests-of-batch-exactly")
		if err == nil && r != nil && len(r.Requests) == s.M {
			for j := 0; j < s.M; j++ {
				chk("C17 C18", string(r.Requests[j].Id) == string(s.ReqIDs[j]), "requests-of-batch-in-index-order")
			}
		}
		nresp := 0
		for j := 0; j < s.M; j++ {
			if !s.Active[j] {
				nresp++
			}
		}
		rr, err := k.Responses(gctx, &types.QueryResponsesRequest{RequestContextId: id, BatchCounter: bc})
		chk("C17 C18", vf.And(err == nil, rr != nil && len(rr.Responses) == nresp), "responses-of-batch-exactly")
		r2, err := k.RequestsByReqCtx(gctx, &types.QueryRequestsByReqCtxRequest{RequestContextId: id, BatchCounter: bc + 1})
		chk("C17 C18", vf.And(err == nil, r2 != nil && len(r2.Requests) == 0), "other-batch-has-no-requests")
		if bc >= 1 { // batches are numbered from 1: nothing is stored under batch 0
			r0, err0 := k.RequestsByReqCtx(gctx, &types.QueryRequestsByReqCtxRequest{RequestContextId: id, BatchCounter: 0})
			chk("C17 C18", vf.And(err0 == nil, r0 != nil && len(r0.Requests) == 0), "batch-zero-has-no-requests")
			rr0, err0 := k.Responses(gctx, &types.QueryResponsesRequest{RequestContextId: id, BatchCounter: 0})
			chk("C17 C18", vf.And(err0 == nil, rr0 != nil && len(rr0.Responses) == 0), "batch-zero-has-no-responses")
		}
		bz, lerr := lq(types.QueryRequestsByReqCtx, types.QueryRequestsByReqCtxParams{RequestContextID: id, BatchCounter: bc})
		var lr []types.Request
		chk("C17", vf.All(lerr == nil, vf.FromAminoJSON(bz, &lr) == nil, len(lr) == s.M), "legacy-requests-of-batch-same")
		bz, lerr = lq(types.QueryResponses, types.QueryResponsesParams{RequestContextID: id, BatchCounter: bc})
		var lp []types.Response
		chk("C17", vf.All(lerr == nil, vf.FromAminoJSON(bz, &lp) == nil, len(lp) == nresp), "legacy-responses-of-batch-same")
		if err == nil && rr != nil && len(rr.Responses) == nresp && len(lp) == nresp {
			for j := 0; j < nresp; j++ {
				chk("C17", sameResponse(lp[j], *rr.Responses[j]), "legacy-response-of-batch-same-record")
			}
		}
		if err == nil && r != nil && len(r.Requests) == s.M && len(lr) == s.M {
			for j := 0; j < s.M; j++ {
				chk("C17", sameRequest(lr[j], *r.Requests[j]), "legacy-request-of-batch-same-record")
			}
		}
	case 8: // single response
		vf.Assume(s.M >= 1)
		r, err := k.Response(gctx, &types.QueryResponseRequest{RequestId: s.ReqIDs[0]})
		chk("C17", vf.And(err == nil, r != nil), "response-ok")
		if err == nil && r != nil {
			if s.Active[0] {
				chk("C17", r.Response.Empty(), "no-response-for-a-pending-request")
			} else {
				chk("C17", vf.All(r.Response.Provider.Equals(s.Provs[0]), r.Response.Output == s.Output[0], r.Response.RequestContextBatchCounter == bc), "response-is-the-stored-one")
				bz, lerr := lq(types.QueryResponse, types.QueryResponseParams{RequestID: s.ReqIDs[0]})
				var lp types.Response
				chk("C17", vf.All(lerr == nil, vf.FromAminoJSON(bz, &lp) == nil, sameResponse(lp, *r.Response)), "legacy-response-same")
			}
		}
	case 9: // earned fees
		// provider 0 also holds earnings in another denomination (earned while the base denomination was another)
		g := vf.Amount("earnedGold0")
		vf.Assume(g.IsPositive())
		k.SetEarnedFees(ctx, s.Provs[0], sdk.Coins{sdk.Coin{Denom: Gold, Amount: g}})
		for i := 0; i < s.N; i++ {
			r, err := k.EarnedFees(gctx, &types.QueryEarnedFeesRequest{Provider: s.Provs[i]})
			chk("C17 C18", vf.And(err == nil, r != nil && r.Fees.AmountOf(Denom).Equal(s.Earned0[i])), "earned-fees-are-the-stored-ones")
			chk("C17 C18", vf.And(err == nil, r != nil && r.Fees.AmountOf(Gold).IsZero() == (i != 0) && (i != 0 || r.Fees.AmountOf(Gold).Equal(g))), "earned-fees-in-every-denomination")
			bz, lerr := lq(types.QueryEarnedFees, types.QueryEarnedFeesParams{Provider: s.Provs[i]})
			var lf sdk.Coins
			chk("C17", vf.All(lerr == nil, vf.FromAminoJSON(bz, &lf) == nil, lf.AmountOf(Denom).Equal(s.Earned0[i])), "legacy-earned-fees-same")
		}
		r, err := k.EarnedFees(gctx, &types.QueryEarnedFeesRequest{Provider: stranger})
		chk("C17 C18", vf.And(err == nil, r != nil && r.Fees.Empty()), "no-earned-fees-for-a-stranger")
	case 10: // params
		r, err := k.Params(gctx, &types.QueryParamsRequest{})
		chk("C17", vf.And(err == nil, r != nil && sameParams(r.Params, vf.Params(ctx))), "params-are-the-stored-ones")
		bz, lerr := legacy(ctx, []string{types.QueryParameters}, abci.RequestQuery{})
		var lp types.Params
		chk("C17", vf.All(lerr == nil, vf.FromAminoJSON(bz, &lp) == nil, sameParams(lp, vf.Params(ctx))), "legacy-params-same")
	case 11: // schemas
		r, err := k.Schema(gctx, &types.QuerySchemaRequest{SchemaName: "Pricing"})
		chk("C17", vf.And(err == nil, r != nil && r.Schema == types.PricingSchema), "pricing-schema")
		r, err = k.Schema(gctx, &types.QuerySchemaRequest{SchemaName: "result"})
		chk("C17", vf.And(err == nil, r != nil && r.Schema == types.ResultSchema), "result-schema")
		_, err = k.Schema(gctx, &types.QuerySchemaRequest{SchemaName: "other"})
		chk("C17", err != nil, "unknown-schema-rejected")
		bz, lerr := lq(types.QuerySchema, types.QuerySchemaParams{SchemaName: "pricing"})
		var ls string
		chk("C17", vf.All(lerr == nil, vf.FromAminoJSON(bz, &ls) == nil, ls == types.PricingSchema), "legacy-schema-same")
	}
}

func coinsOrNil(amt sdk.Int, super bool) sdk.Coins {
	if super {
		return nil
	}
	return coins(amt)
}
