package h

var gnQuick = ReqOpts{MaxProv: 1, OnlyState: -1}

func C19_Genesis() { focus = "C19"; sceneGenesis(gnQuick) }

func C19_EnumJSON() { focus = "C19"; sceneEnumJSON() }
