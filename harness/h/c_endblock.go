package h

import "github.com/irismod/service/keeper"

type keeperT = keeper.Keeper

var nbQuick = ReqOpts{MaxProv: 2, OnlyState: -1}

func C06_NewBatch() { focus = "C06"; sceneNewBatch(nbQuick) }

var exQuick = ReqOpts{MaxProv: 2, OnlyState: -1, NoSlash: true, OneOutput: true}

func C16_Expiry() { focus = "C16"; sceneExpiry(exQuick) }

// one symbolic discount at a time in scenes (products of two symbolic discounts are decided in C07_Discounts)
func C07_NewBatchByTime() {
	focus = "C07"
	sceneNewBatch(ReqOpts{MaxProv: 1, OnlyState: 0, NT: 1, NV: 0, AllBound: true})
}
func C07_NewBatchByVolume() {
	focus = "C07"
	sceneNewBatch(ReqOpts{MaxProv: 1, OnlyState: 0, NT: 0, NV: 2, AllBound: true})
}
