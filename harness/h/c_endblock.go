package h

import "github.com/irismod/service/keeper"

type keeperT = keeper.Keeper

var nbQuick = ReqOpts{MaxProv: 2, OnlyState: -1}

func C06_NewBatch() { focus = "C06"; sceneNewBatch(nbQuick) }

var exQuick = ReqOpts{MaxProv: 2, OnlyState: -1, NoSlash: true, OneOutput: true}

func C16_Expiry() { focus = "C16"; sceneExpiry(exQuick) }
