package h

import "github.com/irismod/service/keeper"

type keeperT = keeper.Keeper

var nbQuick = ReqOpts{MaxProv: 2, OnlyState: -1}

func C06_NewBatch() { focus = "C06"; sceneNewBatch(nbQuick) }
