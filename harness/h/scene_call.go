package h

import (
	sdk "github.com/cosmos/cosmos-sdk/types"

	service "github.com/irismod/service"
	"github.com/irismod/service/types"

	"vh/vf"
)

// sceneCall: a call-service message with arbitrary fields that passes stateless validation.
var callHuge bool

func sceneCall() {
	k, ctx := vf.Env()
	if callHuge { // the fee cap is free up to the 255 bits of an sdk.Int; the state holds what a chain can hold
		hugeMode = true
		vf.CheckOverflow()
	}
	ctx, H, _ := Block(ctx)
	defined := vf.Bool("defined")
	if defined {
		Define(k, ctx, Svc)
	}
	tx := vf.Bytes("txhash", 32)
	mi := vf.Int64("msgIndex")
	ctx = vf.WithTx(ctx, tx, mi)
	consumer := vf.Addr("consumer", 20)
	n := 1 + vf.Choice("nprov", 2)
	provs := make([]sdk.AccAddress, n)
	for i := range provs {
		provs[i] = vf.Addr("prov"+digit(i), 20)
	}
	input := InputOK
	if vf.Bool("inputWithoutHeader") {
		input = `{"body":{}}` // valid JSON that violates the input schema
	}
	capAmt := vf.Amount("cap")
	feeCap := coins(capAmt)
	if vf.Bool("emptyFeeCap") { // an empty coin list passes stateless validation
		feeCap = sdk.Coins{}
		capAmt = sdk.ZeroInt()
	}
	timeout := vf.Int64("timeout")
	super, repeated := vf.Bool("super"), vf.Bool("repeated")
	freq, total := vf.Uint64("freq"), vf.Int64("total")
	vf.Assume(vf.All(timeout < maxH, freq < uint64(maxH), total < maxH))
	msg := types.NewMsgCallService(Svc, provs, consumer, input, feeCap, timeout, super, repeated, freq, total)
	vf.Assume(msg.ValidateBasic() == nil)
	balC0 := inState(vf.Amount("balConsumer"))
	vf.SetBalance(consumer, balC0)
	esc0 := vf.ModuleBalance(types.RequestAccName)
	// a bystander context with a different id
	otherID := vf.Bytes("otherCtx", 40)
	id := types.GenerateRequestContextID(tx, mi)
	vf.Assume(string(otherID) != string(id))
	other := types.NewRequestContext(Svc, provs, consumer, InputOK, coins(sdk.OneInt()), 1, false, false, 0, 0, 1, 0, 0, 1, types.BATCHCOMPLETED, types.PAUSED, 1, "")
	k.SetRequestContext(ctx, otherID, other)

	_, err, panicked := vf.Deliver(ctx, service.NewHandler(k), msg)
	chk("C20", !panicked, "call-no-panic")
	vf.Assume(!panicked)

	rc, found := k.GetRequestContext(ctx, id)
	chk("C18 C09", found == (err == nil), "context-created-under-its-id-iff-accepted")
	chk("C05 C02", vf.And(vf.Balance(consumer).Equal(balC0), vf.ModuleBalance(types.RequestAccName).Equal(esc0)), "call-moves-no-money")
	ob, ok := k.GetRequestContext(ctx, otherID)
	chk("C09 C16", vf.All(ok, ob.State == types.PAUSED, ob.BatchCounter == 1), "other-context-untouched")
	chk("C15", vf.Implies(err == nil, defined), "call-needs-definition")
	chk("C08", vf.Implies(err == nil, vf.And(timeout >= 1, timeout <= vf.Params(ctx).MaxRequestTimeout)), "timeout-within-bounds")
	if err != nil {
		chk("C11", vf.And(!k.HasNewRequestBatch(ctx, id), !k.HasRequestBatchExpiration(ctx, id)), "rejected-call-queues-nothing")
		return
	}
	vf.Reach("accepted")
	vf.Assume(found)
	chk("C18", vf.And(len(id) == types.ContextIDLen, string(id[:32]) == string(tx)), "context-id-from-tx-hash-and-index")
	chk("C09", vf.All(rc.State == types.RUNNING, rc.BatchState == types.BATCHCOMPLETED, rc.BatchCounter == 0, rc.BatchRequestCount == 0, rc.BatchResponseCount == 0), "new-context-running-before-first-batch")
	chk("C09", vf.All(rc.ServiceName == Svc, rc.Consumer.Equals(consumer), rc.Input == input, rc.SuperMode == super, rc.Repeated == repeated, rc.ModuleName == "", rc.Timeout == timeout, len(rc.Providers) == n), "context-records-the-call")
	chk("C10", vf.Implies(rc.Repeated, vf.All(rc.RepeatedFrequency >= uint64(rc.Timeout), vf.Or(rc.RepeatedTotal == -1, rc.RepeatedTotal >= 1))), "repeated-cadence-valid")
	chk("C10", vf.Implies(!rc.Repeated, vf.And(rc.RepeatedFrequency == 0, rc.RepeatedTotal == 0)), "one-shot-has-no-cadence")
	chk("C10 C11", vf.And(newBatchAt(k, ctx, id, H), !k.HasRequestBatchExpiration(ctx, id)), "first-batch-queued-at-call-height")
	chk("C06", vf.And(rc.ServiceFeeCap.AmountOf(Denom).Equal(capAmt), capAmt.IsPositive()), "fee-cap-recorded")
}

// sceneDefine: a define-service message; definitions are unique and never change.
func sceneDefine() {
	k, ctx := vf.Env()
	ctx, _, _ = Block(ctx)
	names := []string{"Ab", "ab", "abc"} // names differing only in case are different names
	have := names[vf.Choice("existing", 3)]
	author0 := vf.Addr("author0", 20)
	k.SetServiceDefinition(ctx, types.NewServiceDefinition(have, "d0", []string{"t"}, author0, "ad0", Schemas))
	name := names[vf.Choice("name", 3)]
	author := vf.Addr("author", 20)
	schemas := Schemas
	switch vf.Choice("schemas", 3) {
	case 1:
		schemas = `{"input":{"type":"object"}}`
	case 2:
		schemas = `{"input":{"type":"nope"},"output":{"type":"object"}}`
	}
	// tags: none, one, or a pair that is valid as sent but would collide or vanish if "normalised"
	var tags []string
	switch vf.Choice("tags", 5) {
	case 1:
		tags = []string{"t"}
	case 2:
		tags = []string{"feed", "feed "}
	case 3:
		tags = []string{"Feed", "feed", " "}
	case 4:
		tags = []string{"a", "b", "c", "d", "e", "f", "g", "h", "i", "j"}
	}
	desc := []string{"d1", "", " d 1 "}[vf.Choice("description", 3)]
	msg := types.NewMsgDefineService(name, desc, tags, author, "ad1", schemas)
	vf.Assume(msg.ValidateBasic() == nil)
	_, err, panicked := vf.Deliver(ctx, service.NewHandler(k), msg)
	chk("C20", !panicked, "define-no-panic")
	vf.Assume(!panicked)
	chk("C15", (err == nil) == (name != have), "define-accepted-iff-name-is-new")
	old, ok := k.GetServiceDefinition(ctx, have)
	chk("C15", vf.All(ok, old.Description == "d0", old.Author.Equals(author0), old.Schemas == Schemas, old.AuthorDescription == "ad0", len(old.Tags) == 1), "existing-definition-unchanged")
	if err == nil {
		def, ok := k.GetServiceDefinition(ctx, name)
		chk("C15", vf.All(ok, def.Name == name, def.Author.Equals(author), def.Schemas == schemas), "definition-recorded")
		// (how a definition's texts are normalised, if at all, is the module's choice; no tag is lost or invented, and
		// what is stored satisfies the module's own validity rules)
		chk("C15", len(def.Tags) == len(tags), "definition-keeps-its-tags")
		chk("C15", def.Validate() == nil, "stored-definition-is-valid")
	}
	n := 0
	k.IterateServiceDefinitions(ctx, func(d types.ServiceDefinition) bool { n++; return false })
	want := 1
	if err == nil {
		want = 2
	}
	chk("C15", n == want, "definition-count")
}
