package h

func C09_Call()   { focus = "C09"; sceneCall() }
func C15_Define() { focus = "C15"; sceneDefine() }
