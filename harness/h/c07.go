package h

import (
	sdk "github.com/cosmos/cosmos-sdk/types"

	"github.com/irismod/service/types"

	"vh/vf"
)

// C07: discount selection against a reference that scans the other way round, for every block time
// and volume relative to the promotion windows / thresholds of any valid pricing.
func discounts(nT, nV int) {
	k, ctx := vf.Env()
	text := vf.PricingText("p", nT, nV)
	vf.Assume(types.ValidateBindingPricing(text) == nil)
	p, err := k.ParsePricing(ctx, text)
	vf.Assume(err == nil)
	vf.Assume(types.ValidatePricing(p) == nil)
	now := vf.Time("now")
	vol := vf.Uint64("volume")

	// reference: the window containing now (windows of a valid pricing do not overlap), scanning from the end
	refT := sdk.OneDec()
	for i := len(p.PromotionsByTime) - 1; i >= 0; i-- {
		w := p.PromotionsByTime[i]
		if vf.And(!now.Before(w.StartTime), now.Before(w.EndTime)) {
			refT = w.Discount
		}
	}
	gotT := types.GetDiscountByTime(p, now)
	vf.Assert(gotT.Equal(refT), "time-discount-is-the-window-in-effect")
	// reference: the last promotion whose threshold does not exceed the volume
	refV := sdk.OneDec()
	for _, pv := range p.PromotionsByVolume {
		if pv.Volume <= vol {
			refV = pv.Discount
		}
	}
	gotV := types.GetDiscountByVolume(p, vol)
	vf.Assert(gotV.Equal(refV), "volume-discount-is-the-last-threshold-reached")
	// fee = max(1, trunc(base x dT x dV)) never exceeds max(base, 1)
	base := p.Price.AmountOf(Denom)
	fee := sdk.MaxInt(sdk.NewDecFromInt(base).Mul(gotT).Mul(gotV).TruncateInt(), sdk.OneInt())
	vf.Assert(fee.LTE(sdk.MaxInt(base, sdk.OneInt())), "fee-never-exceeds-base-price-or-one-unit")
	vf.Assert(vf.And(gotT.GT(sdk.ZeroDec()), gotT.LTE(sdk.OneDec())), "time-discount-in-range")
	vf.Assert(vf.And(gotV.GT(sdk.ZeroDec()), gotV.LTE(sdk.OneDec())), "volume-discount-in-range")
}

func choice4() int { return vf.Choice("shape", 4) }
