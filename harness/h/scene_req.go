package h

import (
	"strings"
	"time"

	sdk "github.com/cosmos/cosmos-sdk/types"
	tmbytes "github.com/tendermint/tendermint/libs/bytes"

	"github.com/irismod/service/keeper"
	"github.com/irismod/service/types"

	"vh/vf"
)

// focus selects which property's assertions a scene states (a scene is shared by several properties).
var focus string

func on(props string) bool { return strings.Contains(props, focus) }

func chk(props string, c bool, clause string) {
	if on(props) {
		vf.Assert(c, clause)
	}
}

func chkKF(props string, c bool, clause, finding string, region bool) {
	if on(props) {
		vf.AssertKF(c, clause, finding, region)
	}
}

func digit(i int) string { return string(rune('0' + i)) }

// ---------------------------------------------------------------- callbacks of another module

type respCall struct {
	ID      tmbytes.HexBytes
	Outputs []string
	Err     bool
}
type cbLog struct {
	Resp  []respCall
	State []tmbytes.HexBytes
	// OnResp: what the owning module does, through the keeper, when it is handed a batch's result
	OnResp func(ctx sdk.Context, id tmbytes.HexBytes)
}

const Mod = "mod"

func registerCallbacks(k keeper.Keeper) *cbLog {
	log := &cbLog{}
	_ = k.RegisterResponseCallback(Mod, func(ctx sdk.Context, id tmbytes.HexBytes, outs []string, err error) {
		log.Resp = append(log.Resp, respCall{ID: id, Outputs: outs, Err: err != nil})
		if log.OnResp != nil {
			log.OnResp(ctx, id)
		}
	})
	_ = k.RegisterStateCallback(Mod, func(ctx sdk.Context, id tmbytes.HexBytes, cause string) {
		log.State = append(log.State, id)
	})
	return log
}

// ---------------------------------------------------------------- a request context with its current batch

type ReqScene struct {
	K         keeper.Keeper
	Ctx       sdk.Context
	H         int64
	Now       time.Time
	N         int
	Provs     []sdk.AccAddress
	Owner     sdk.AccAddress
	Binds     []BindingSpec
	Consumer  sdk.AccAddress
	ID        []byte
	Pre       types.RequestContext
	MaxTotal  int64 // ghost: largest total ever in force (>= current total)
	Unbounded bool  // ghost: total -1 (no limit) was in force at some time

	// current batch
	M       int
	ReqIDs  []tmbytes.HexBytes
	ReqProv []int // index into Provs
	Active  []bool
	Fee     []sdk.Int
	Output  []string // output of the stored response when not active
	ExpH    int64    // expiry height of the batch in flight
	ReqH    int64

	Log *cbLog

	// balances
	Esc0, BalC0, DepAcc0, Supply0, Collector0 sdk.Int
	Earned0, OwnerEarned0                     []sdk.Int // per provider earned fees (owner total is the sum)
	Vol0                                      []uint64
}

type ReqOpts struct {
	MaxProv      int  // providers listed in the context: 1..MaxProv
	Batch        bool // a batch is in flight (requests, expiry entry)
	AtExpiry     bool // the batch expires in this block
	NewBatch     bool // a new-batch entry is pending at this height (no batch in flight)
	NT, NV       int  // promotions per pricing
	AllBound     bool // every listed provider has a binding
	Module       bool // the context may belong to another module (callbacks registered)
	FixDiscounts bool // promotions carry concrete discounts (chosen among a few pairs)
	ModuleOnly   bool // with Module: the context always belongs to the other module
	Earned       bool // providers may hold earned fees
	NoSlash      bool // slash fraction fixed to 0 (lifecycle-focused scenes; slashing is decided by the C03/C04/C14 scenes)
	AnyDeposit   bool // available bindings may be below the minimum deposit (after a parameter change)
	ZeroDep      int  // the first ZeroDep providers' bindings may hold a zero deposit (refunded bindings)
	MinReq       int  // at least MinReq requests in the batch in flight
	Vol          bool // consumers may already have a request volume with the providers
	Restart      bool // allow frequency == timeout: the next batch starts in the block in which this one expires
	OneOutput    bool // stored responses all carry a well-formed output (their shape only matters to callbacks)
	OnlyState    int  // -1: any state
	Huge         bool // model the SDK's 255-bit range checks; the state holds what a chain can hold (amounts < 2^127)
	ModuleGone   bool // with Module: the owning module may have no callbacks registered in this application (a context
	// that came in through a genesis import)
	Exchange bool // the host application knows a second token ("gold"); bindings publish their price in it
}

// ctxFields draws the lifecycle-independent fields of a context within the CTX invariant.
func (s *ReqScene) ctxFields(tag string, o ReqOpts) {
	// the timeout was within the maximum when it was set; the parameter may have been lowered since
	timeout := vf.Int64(tag + ".timeout")
	vf.Assume(vf.And(timeout >= 1, timeout < maxH))
	capAmt := vf.Amount(tag + ".cap")
	vf.Assume(capAmt.IsPositive())
	module := ""
	if o.Module && (o.ModuleOnly || vf.Bool(tag+".module")) {
		module = Mod
	}
	// a context of another module carries a threshold between 1 and the number of its providers; one created by
	// MsgCallService carries 0 (the handler passes no threshold), which every non-empty batch meets
	th := vf.Uint32(tag + ".threshold")
	vf.Assume(vf.And(vf.Or(th >= 1, module == ""), int(th) <= s.N))
	bc := vf.Uint64(tag + ".bc")
	vf.Assume(bc < uint64(maxH))
	super := vf.Bool(tag + ".super")
	repeated := vf.Bool(tag + ".repeated")
	freq := vf.Uint64(tag + ".freq")
	total := vf.Int64(tag + ".total")
	s.MaxTotal = vf.Int64(tag + ".maxTotal")
	// repeated: frequency >= timeout, total is -1 or positive; one-shot: both zero, at most one batch
	vf.Assume(vf.Implies(repeated, vf.And(vf.And(freq >= uint64(timeout), freq < uint64(maxH)),
		vf.And(vf.And(vf.Or(total == -1, total >= 1), total < maxH), vf.And(s.MaxTotal >= total, s.MaxTotal < maxH)))))
	s.Unbounded = vf.Bool(tag + ".everUnbounded")
	vf.Assume(vf.Implies(vf.And(repeated, total == -1), s.Unbounded))
	vf.Assume(vf.Implies(vf.And(repeated, !s.Unbounded), int64(bc) <= s.MaxTotal))
	// a one-shot context is created with frequency = total = 0, but an update message may have stored a
	// frequency (>= timeout) and a total on it; it never gets a second batch
	vf.Assume(vf.Implies(!repeated, vf.All(vf.Or(freq == 0, vf.And(freq >= uint64(timeout), freq < uint64(maxH))), total >= -1, total < maxH, bc <= 1)))
	if o.AtExpiry && !o.Restart {
		vf.Assume(vf.Implies(repeated, freq > uint64(timeout)))
	}
	st := vf.Uint32(tag + ".state")
	vf.Assume(st <= 2)
	state := types.RequestContextState(st)
	if o.OnlyState >= 0 {
		vf.Assume(int(state) == o.OnlyState)
	}
	// between batches the record still carries the counts and the threshold snapshot of the previous batch
	bth := vf.Uint32(tag + ".batchThreshold")
	preq, presp := vf.Uint32(tag+".prevRequests"), vf.Uint32(tag+".prevResponses")
	vf.Assume(vf.All(bth <= 10, preq <= 10, presp <= preq))
	s.Pre = types.NewRequestContext(Svc, s.Provs, s.Consumer, InputOK, coins(capAmt), timeout, super, repeated, freq, total,
		bc, preq, presp, bth, types.BATCHCOMPLETED, state, th, module)
}

// counterRoom: the C10 invariant for a context with no batch in flight (a pending start or idle):
// the batch counter is strictly below the largest total ever in force; a one-shot has not run yet.
func (s *ReqScene) counterRoom() {
	vf.Assume(vf.Implies(vf.And(s.Pre.Repeated, !s.Unbounded), int64(s.Pre.BatchCounter) < s.MaxTotal))
	vf.Assume(vf.Implies(!s.Pre.Repeated, s.Pre.BatchCounter == 0))
}

func NewReqScene(o ReqOpts) *ReqScene {
	s := &ReqScene{}
	noMinAssumed = o.AnyDeposit
	priceDenom = Denom
	if o.Exchange {
		priceDenom = Gold
		s.K, s.Ctx = vf.EnvWith(twoTokens{})
	} else {
		s.K, s.Ctx = vf.Env()
	}
	k := s.K
	if o.Huge {
		hugeMode = true
		vf.CheckOverflow()
		vf.Assume(k.MinDeposit(s.Ctx).AmountOf(Denom).LT(two127()))
	}
	s.Ctx, s.H, s.Now = Block(s.Ctx)
	ctx := s.Ctx
	Define(k, ctx, Svc)
	if o.NoSlash {
		p := k.GetParams(ctx)
		p.SlashFraction = sdk.ZeroDec()
		k.SetParams(ctx, p)
	}
	if o.Module && o.ModuleGone && vf.Bool("moduleGone") {
		s.Log = &cbLog{}
	} else {
		s.Log = registerCallbacks(k)
	}
	s.N = 1 + vf.Choice("nprov", o.MaxProv)
	s.Owner = vf.Addr("owner", 20)
	s.Consumer = vf.Addr("consumer", 20)
	s.Provs = make([]sdk.AccAddress, s.N)
	s.Binds = make([]BindingSpec, s.N)
	for i := 0; i < s.N; i++ {
		s.Provs[i] = vf.Addr("prov"+digit(i), 20)
	}
	distinct(s.Provs...)
	s.DepAcc0 = inState(vf.Amount("depositRest"))
	s.Vol0 = make([]uint64, s.N)
	s.Earned0 = make([]sdk.Int, s.N)
	ownerEarned := sdk.ZeroInt()
	s.Esc0 = inState(vf.Amount("escrowRest"))
	for i := 0; i < s.N; i++ {
		s.Earned0[i] = sdk.ZeroInt()
		if o.AllBound || vf.Bool("bound"+digit(i)) {
			s.Binds[i] = Binding(k, ctx, "b"+digit(i), Svc, s.Provs[i], s.Owner, o.NT, o.NV, i < o.ZeroDep)
			if o.FixDiscounts {
				dT, dV := sdk.NewDecWithPrec(5, 1), sdk.NewDecWithPrec(99, 2)
				switch vf.Choice("discounts", 3) {
				case 1:
					dT, dV = sdk.NewDecWithPrec(5, 1), sdk.NewDecWithPrec(5, 1)
				case 2:
					dT, dV = sdk.NewDecWithPrec(333333333333333333, 18), sdk.NewDecWithPrec(7, 1)
				}
				for _, p := range s.Binds[i].Pricing.PromotionsByTime {
					vf.Assume(p.Discount.Equal(dT))
				}
				for _, p := range s.Binds[i].Pricing.PromotionsByVolume {
					vf.Assume(p.Discount.Equal(dV))
				}
			}
			s.DepAcc0 = s.DepAcc0.Add(s.Binds[i].Deposit)
			if o.NV > 0 || o.Vol {
				s.Vol0[i] = vf.Uint64("vol" + digit(i))
				vf.Assume(s.Vol0[i] < uint64(maxH))
				k.SetRequestVolume(ctx, s.Consumer, Svc, s.Provs[i], s.Vol0[i])
				// another consumer's history with the same provider is its own record
				another := sdk.AccAddress("another-consumer____")
				vf.Assume(!s.Consumer.Equals(another))
				k.SetRequestVolume(ctx, another, Svc, s.Provs[i], s.Vol0[i]+7)
			}
			// provider 0 may or may not hold earnings; the others always do (they serve as the frame)
			if o.Earned && (i > 0 || vf.Bool("hasEarned"+digit(i))) {
				s.Earned0[i] = inState(vf.Amount("earned" + digit(i)))
				vf.Assume(s.Earned0[i].IsPositive())
				k.SetEarnedFees(ctx, s.Provs[i], coins(s.Earned0[i]))
				ownerEarned = ownerEarned.Add(s.Earned0[i])
				s.Esc0 = s.Esc0.Add(s.Earned0[i])
			}
		}
	}
	if ownerEarned.IsPositive() {
		k.SetOwnerEarnedFees(ctx, s.Owner, coins(ownerEarned))
	}
	s.ID = vf.Bytes("ctxid", 40)
	s.ctxFields("x", o)

	if o.Batch {
		s.addBatch(o)
	} else {
		if o.NewBatch {
			k.AddNewRequestBatch(ctx, s.ID, s.H)
			s.counterRoom()
		}
		k.SetRequestContext(ctx, s.ID, s.Pre)
	}

	s.BalC0 = inState(vf.Amount("balConsumer"))
	vf.SetBalance(s.Consumer, s.BalC0)
	vf.SetModuleBalance(types.RequestAccName, s.Esc0)
	vf.SetModuleBalance(types.DepositAccName, s.DepAcc0)
	s.Collector0 = inState(vf.Amount("collector"))
	vf.SetModuleBalance("fee_collector", s.Collector0)
	s.Supply0 = inState(vf.Amount("supplyRest")).Add(s.DepAcc0).Add(s.Esc0).Add(s.BalC0)
	vf.SetSupply(s.Supply0)
	return s
}

// addBatch installs the batch in flight: M requests to distinct bound providers, each pending
// (marker, fee held in escrow) or answered (response record), the expiry entry, and the counts.
func (s *ReqScene) addBatch(o ReqOpts) {
	k, ctx := s.K, s.Ctx
	vf.Assume(s.Pre.BatchCounter >= 1)
	// a one-shot context with a batch in flight is running: it cannot be paused or killed by a message,
	// and a pause for lack of funds happens only when no batch is issued
	vf.Assume(vf.Implies(!s.Pre.Repeated, s.Pre.State == types.RUNNING))
	if o.AtExpiry {
		s.ExpH = s.H
	} else {
		s.ExpH = vf.Int64("expH")
		vf.Assume(vf.And(s.ExpH >= s.H, s.ExpH < maxH))
	}
	s.ReqH = vf.Int64("reqH")
	// issued in an earlier block, under a timeout of at least one block
	vf.Assume(vf.And(s.ReqH >= 1, s.ReqH < s.H))
	vf.Assume(s.ReqH < s.ExpH)
	s.M = o.MinReq + vf.Choice("nreq", s.N+1-o.MinReq) // 0: the batch was skipped
	s.ReqIDs = make([]tmbytes.HexBytes, s.M)
	s.ReqProv = make([]int, s.M)
	s.Active = make([]bool, s.M)
	s.Fee = make([]sdk.Int, s.M)
	s.Output = make([]string, s.M)
	nresp := 0
	for j := 0; j < s.M; j++ {
		// requests go to the first M listed providers, which are bound
		s.ReqProv[j] = j
		vf.Assume(s.Binds[j].Present)
		s.ReqIDs[j] = types.GenerateRequestID(s.ID, s.Pre.BatchCounter, s.ReqH, int16(j))
		var fee sdk.Coins
		s.Fee[j] = sdk.ZeroInt()
		if !s.Pre.SuperMode {
			s.Fee[j] = inState(vf.Amount("fee" + digit(j)))
			vf.Assume(s.Fee[j].IsPositive())
			fee = coins(s.Fee[j])
		}
		k.SetCompactRequest(ctx, s.ReqIDs[j], types.NewCompactRequest(s.ID, s.Pre.BatchCounter, s.Provs[j], fee, s.ReqH, s.ExpH))
		s.Active[j] = vf.Bool("active" + digit(j))
		if s.Active[j] {
			k.AddActiveRequest(ctx, Svc, s.Provs[j], s.ExpH, s.ReqIDs[j])
			s.Esc0 = s.Esc0.Add(s.Fee[j])
		} else {
			nresp++
			result := ResultOK
			pick := 0
			if !o.OneOutput {
				pick = vf.Choice("out"+digit(j), 3)
			}
			switch pick {
			case 0:
				s.Output[j] = OutputOK
			case 1:
				s.Output[j] = OutputBad
			case 2:
				s.Output[j], result = "", ResultErr
			}
			k.SetResponse(ctx, s.ReqIDs[j], types.NewResponse(s.Provs[j], s.Consumer, result, s.Output[j], s.ID, s.Pre.BatchCounter))
		}
	}
	s.Pre.BatchRequestCount = uint32(s.M)
	s.Pre.BatchResponseCount = uint32(nresp)
	if s.M > 0 && nresp == s.M {
		s.Pre.BatchState = types.BATCHCOMPLETED // completed early by the last response
	} else {
		s.Pre.BatchState = types.BATCHRUNNING
	}
	k.SetRequestContext(ctx, s.ID, s.Pre)
	k.AddRequestBatchExpiration(ctx, s.ID, s.ExpH)
}

// countRecords counts request, response and marker records of a batch.
func countRecords(k keeper.Keeper, ctx sdk.Context, id []byte, bc uint64) (nreq, nresp, nact int) {
	it := k.RequestsIteratorByReqCtx(ctx, id, bc)
	for ; it.Valid(); it.Next() {
		nreq++
	}
	it.Close()
	it = k.ResponsesIteratorByReqCtx(ctx, id, bc)
	for ; it.Valid(); it.Next() {
		nresp++
	}
	it.Close()
	it = k.ActiveRequestsIteratorByReqCtx(ctx, id, bc)
	for ; it.Valid(); it.Next() {
		nact++
	}
	it.Close()
	return
}

// SlashRef: the reference effect of one slash on a binding.
func SlashRef(k keeper.Keeper, ctx sdk.Context, b BindingSpec, now time.Time) (newDep, amount sdk.Int, avail bool, disabled time.Time) {
	amount = sdk.NewDecFromInt(b.Deposit).Mul(vf.Params(ctx).SlashFraction).TruncateInt()
	newDep = b.Deposit.Sub(amount)
	avail, disabled = b.Available, b.DisabledTime
	if b.Available && newDep.LT(MinDepositRef(k, ctx, b.Pricing.Price.AmountOf(Denom))) {
		avail, disabled = false, now
	}
	return
}
