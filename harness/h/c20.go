package h

import (
	sdk "github.com/cosmos/cosmos-sdk/types"
	tmbytes "github.com/tendermint/tendermint/libs/bytes"

	service "github.com/irismod/service"
	"github.com/irismod/service/types"

	"vh/vf"
)

// C20_RangeModel pins the model of the SDK's range checks against the SDK itself (native witnesses): products
// and sums of amounts within the state bound never panic, products beyond 2^255 do.
func C20_RangeModel() {
	focus = "C20"
	vf.Env()
	vf.CheckOverflow()
	x, y := vf.Amount("x"), vf.Amount("y")
	pm := vf.Try(func() { _ = x.Mul(y) })
	pa := vf.Try(func() { _ = x.Add(y) })
	pd := vf.Try(func() { _ = sdk.NewDecFromInt(x).MulInt(y) })
	chk("C20", vf.Implies(vf.And(x.LT(two127()), y.LT(two127())), vf.All(!pm, !pa, !pd)), "no-range-panic-within-the-state-bound")
	chk("C20", vf.Implies(vf.And(x.GTE(two127().MulRaw(2)), y.GTE(two127())), pm), "product-beyond-255-bits-panics")
	chk("C20", vf.Implies(vf.And(x.GTE(two127().Mul(two127())), y.GTE(x)), pa), "sum-beyond-255-bits-panics")
}

func C20_ParseDecimalPrice() {
	focus = "C20"
	k, ctx := vf.Env()
	vf.CheckOverflow()
	text := vf.PricingTextDec("m.pricing", 0, 0)
	panicked := vf.Try(func() { _, _ = k.ParsePricing(ctx, text) })
	chk("C20", !panicked, "parsing-a-schema-valid-decimal-price-no-panic")
}

// C20_CallWithoutTxHash: the request context's id is built from the transaction hash and the message index that the
// host application is expected to put into the context. The repository's own application never does. A
// call-service message delivered there must be refused, not make the handler panic.
func C20_CallWithoutTxHash() {
	focus = "C20"
	k, ctx := vf.Env()
	ctx, _, _ = Block(ctx)
	Define(k, ctx, Svc)
	consumer, prov := vf.Addr("consumer", 20), vf.Addr("prov", 20)
	switch vf.Choice("host", 3) {
	case 1: // only the hash
		ctx = vf.WithTxHashOnly(ctx, vf.Bytes("txhash", 32))
	case 2: // both
		ctx = vf.WithTx(ctx, vf.Bytes("txhash", 32), vf.Int64("msgIndex"))
	}
	capAmt := vf.Amount("cap")
	msg := types.NewMsgCallService(Svc, []sdk.AccAddress{prov}, consumer, InputOK, coins(capAmt), vf.Int64("timeout"), false, false, 0, 0)
	vf.Assume(msg.ValidateBasic() == nil)
	n0 := 0
	k.IterateRequestContexts(ctx, func(tmbytes.HexBytes, types.RequestContext) bool { n0++; return false })
	_, err, panicked := vf.Deliver(ctx, service.NewHandler(k), msg)
	chk("C20", !panicked, "call-without-transaction-hash-no-panic")
	vf.Assume(!panicked)
	n1 := 0
	k.IterateRequestContexts(ctx, func(tmbytes.HexBytes, types.RequestContext) bool { n1++; return false })
	// (the properties only demand that the handler does not panic; whether such a call is refused or given an id
	// some other way is the module's choice - a refused call creates nothing, an accepted one exactly one context)
	chk("C20 C18 C09", vf.And(vf.Implies(err != nil, n1 == n0), vf.Implies(err == nil, n1 == n0+1)), "call-creates-one-context-or-nothing")
}
