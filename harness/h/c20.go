package h

import (
	sdk "github.com/cosmos/cosmos-sdk/types"

	"vh/vf"
)

// C20_RangeModel pins the model of the SDK's range checks against the SDK itself (native witnesses): products
// and sums of amounts within the state bound never panic, products beyond 2^255 do.
func C20_RangeModel() {
	focus = "C20"
	vf.Env()
	vf.CheckOverflow()
	x, y := vf.Amount("x"), vf.Amount("y")
	pm := vf.Try(func() { _ = x.Mul(y) })
	pa := vf.Try(func() { _ = x.Add(y) })
	pd := vf.Try(func() { _ = sdk.NewDecFromInt(x).MulInt(y) })
	chk("C20", vf.Implies(vf.And(x.LT(two127()), y.LT(two127())), vf.All(!pm, !pa, !pd)), "no-range-panic-within-the-state-bound")
	chk("C20", vf.Implies(vf.And(x.GTE(two127().MulRaw(2)), y.GTE(two127())), pm), "product-beyond-255-bits-panics")
	chk("C20", vf.Implies(vf.And(x.GTE(two127().Mul(two127())), y.GTE(x)), pa), "sum-beyond-255-bits-panics")
}

func C20_ParseDecimalPrice() {
	focus = "C20"
	k, ctx := vf.Env()
	vf.CheckOverflow()
	text := vf.PricingTextDec("m.pricing", 0, 0)
	panicked := vf.Try(func() { _, _ = k.ParsePricing(ctx, text) })
	chk("C20", !panicked, "parsing-a-schema-valid-decimal-price-no-panic")
}
