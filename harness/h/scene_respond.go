package h

import (
	sdk "github.com/cosmos/cosmos-sdk/types"
	tmbytes "github.com/tendermint/tendermint/libs/bytes"

	service "github.com/irismod/service"
	"github.com/irismod/service/types"

	"vh/vf"
)

// sceneRespond: a respond message (through the real handler, transactional) aimed at request 0 of the
// batch in flight or at an unknown request, signed by the designated provider or by a stranger.
func sceneRespond(o ReqOpts) {
	o.Batch, o.AllBound, o.Earned, o.Vol, o.MinReq, o.ZeroDep = true, true, true, true, 1, 1
	s := NewReqScene(o)
	k, ctx, id, pre := s.K, s.Ctx, s.ID, s.Pre
	bc := pre.BatchCounter

	rid := []byte(s.ReqIDs[0])
	known := vf.Bool("knownRequest")
	if !known {
		rid = vf.Bytes("otherReq", types.RequestIDLen)
		for j := 0; j < s.M; j++ {
			vf.Assume(string(rid) != string(s.ReqIDs[j]))
		}
	}
	signer := s.Provs[0]
	rightful := vf.Bool("rightProvider")
	if !rightful {
		signer = vf.Addr("stranger", 20)
		vf.Assume(!signer.Equals(s.Provs[0]))
	}
	result, output := ResultOK, OutputOK
	switch vf.Choice("output", 3) {
	case 1:
		output = OutputBad
	case 2:
		result, output = ResultErr, ""
	}
	wellFormed := output != OutputBad
	msg := types.NewMsgRespondService(rid, signer, result, output)
	vf.Assume(msg.ValidateBasic() == nil)
	balSigner0 := vf.Balance(signer)

	res, err, panicked := vf.Deliver(ctx, service.NewHandler(k), msg)
	chk("C20", !panicked, "respond-no-panic")
	vf.Assume(!panicked)

	accepted := known && rightful && s.Active[0]
	chk("C08 C05", (err == nil) == accepted, "accepted-iff-designated-provider-and-pending")

	post, found := k.GetRequestContext(ctx, id)
	chk("C09 C16 C08 C01 C02 C11", found, "ctx-kept")
	vf.Assume(found)
	chk("C09", vf.All(immutableCtx(pre, post), post.State == pre.State, post.BatchCounter == bc), "ctx-lifecycle-untouched-by-respond")
	esc1 := vf.ModuleBalance(types.RequestAccName)
	balC1 := vf.Balance(s.Consumer)
	col1 := vf.ModuleBalance("fee_collector")
	earned1, _ := k.GetEarnedFees(ctx, s.Provs[0])
	ownerEarned1, _ := k.GetOwnerEarnedFees(ctx, s.Owner)
	ownerEarned0 := sdk.ZeroInt()
	for i := 0; i < s.N; i++ {
		ownerEarned0 = ownerEarned0.Add(s.Earned0[i])
	}
	b0, _ := k.GetServiceBinding(ctx, Svc, s.Provs[0])
	nreq, nresp, nact := countRecords(k, ctx, id, bc)
	nresp0, nact0 := 0, 0
	for j := 0; j < s.M; j++ {
		if s.Active[j] {
			nact0++
		} else {
			nresp0++
		}
	}
	chk("C05", vf.Balance(signer).GTE(balSigner0), "signer-not-debited")
	if err != nil {
		vf.Reach("rejected")
		// a rejected response changes nothing
		chk("C08 C01 C02", vf.All(esc1.Equal(s.Esc0), balC1.Equal(s.BalC0), col1.Equal(s.Collector0)), "rejected-no-money-moves")
		chk("C08 C13", vf.All(earned1.AmountOf(Denom).Equal(s.Earned0[0]), ownerEarned1.AmountOf(Denom).Equal(ownerEarned0)), "rejected-earnings-unchanged")
		chk("C08 C12 C16", vf.All(nreq == s.M, nresp == nresp0, nact == nact0), "rejected-records-unchanged")
		chk("C08 C12", vf.All(post.BatchResponseCount == pre.BatchResponseCount, post.BatchState == pre.BatchState), "rejected-counts-unchanged")
		chk("C04 C03", vf.All(b0.Deposit.AmountOf(Denom).Equal(s.Binds[0].Deposit), b0.Available == s.Binds[0].Available), "rejected-no-slash")
		chk("C07", k.GetRequestVolume(ctx, s.Consumer, Svc, s.Provs[0]) == s.Vol0[0], "rejected-volume-unchanged")
		chk("C12", len(s.Log.Resp) == 0, "rejected-no-callback")
		return
	}
	vf.Reach("accepted")
	fee := s.Fee[0]
	// ---- settlement
	if wellFormed {
		tax := sdk.NewDecFromInt(fee).Mul(vf.Params(ctx).ServiceFeeTax).TruncateInt()
		net := fee.Sub(tax)
		chk("C02 C01", col1.Sub(s.Collector0).Equal(tax), "tax-is-floor-of-fee-times-rate")
		// (C20: a withdrawal subtracts the provider's record from the owner's total and panics if that went negative)
		chk("C02 C13 C20", earned1.AmountOf(Denom).Sub(s.Earned0[0]).Equal(net), "provider-earns-fee-minus-tax")
		chk("C13 C20", ownerEarned1.AmountOf(Denom).Sub(ownerEarned0).Equal(net), "owner-earns-the-same")
		chk("C01 C02", s.Esc0.Sub(esc1).Equal(tax), "escrow-releases-only-tax")
		chk("C02", balC1.Equal(s.BalC0), "consumer-untouched-on-good-response")
		chk("C04 C03", vf.All(b0.Deposit.AmountOf(Denom).Equal(s.Binds[0].Deposit), b0.Available == s.Binds[0].Available, b0.DisabledTime.Equal(s.Binds[0].DisabledTime)), "no-slash-on-good-response")
		chk("C03", vf.All(vf.ModuleBalance(types.DepositAccName).Equal(s.DepAcc0), vf.Supply().Equal(s.Supply0)), "deposits-untouched-on-good-response")
		chk("C04", len(eventsIn(res, types.EventTypeServiceSlash)) == 0, "no-slash-event-on-good-response")
	} else {
		newDep, amt, avail, disabled := SlashRef(k, ctx, s.Binds[0], s.Now)
		if pre.SuperMode {
			// the fee of a super-mode request is nil: the refund moves nothing
			chk("C02", balC1.Equal(s.BalC0), "super-refund-nothing")
		}
		chk("C02 C01", balC1.Sub(s.BalC0).Equal(fee), "whole-fee-back-to-consumer-on-malformed-output")
		chk("C01 C02", s.Esc0.Sub(esc1).Equal(fee), "escrow-releases-the-fee")
		chk("C02", col1.Equal(s.Collector0), "no-tax-on-malformed-output")
		chk("C02 C13", vf.All(earned1.AmountOf(Denom).Equal(s.Earned0[0]), ownerEarned1.AmountOf(Denom).Equal(ownerEarned0)), "no-earnings-on-malformed-output")
		chk("C04 C03", b0.Deposit.AmountOf(Denom).Equal(newDep), "slashed-by-floor-of-fraction")
		chk("C04 C14", vf.All(b0.Available == avail, b0.DisabledTime.Equal(disabled)), "auto-disable-iff-below-minimum")
		chk("C03 C04", vf.All(s.DepAcc0.Sub(vf.ModuleBalance(types.DepositAccName)).Equal(amt), s.Supply0.Sub(vf.Supply()).Equal(amt)), "slashed-coins-burned")
		chk("C14", vf.Implies(b0.Available, b0.Deposit.AmountOf(Denom).GTE(MinDepositRef(k, ctx, s.Binds[0].Pricing.Price.AmountOf(Denom)))), "available-holds-minimum")
		sl := eventsIn(res, types.EventTypeServiceSlash)
		chk("C04", len(sl) == 1, "one-slash-event-on-malformed-output")
		if len(sl) == 1 {
			er, _ := attrOf(sl[0], types.AttributeKeyRequestID)
			ep, _ := attrOf(sl[0], types.AttributeKeyProvider)
			chk("C04", vf.And(er == tmbytes.HexBytes(rid).String(), ep == s.Provs[0].String()), "slash-event-names-the-failed-request-and-its-provider")
		}
	}
	// ---- records
	chk("C08 C02 C16 C01 C04 C11 C19", vf.All(!k.IsRequestActive(ctx, rid), !vf.Store(ctx).Has(types.GetActiveRequestKey(Svc, s.Provs[0], s.ExpH, rid))), "marker-removed-so-no-second-settlement")
	resp, ok := k.GetResponse(ctx, rid)
	chk("C12 C16", vf.All(ok, resp.Output == output, resp.Provider.Equals(s.Provs[0]), resp.RequestContextBatchCounter == bc), "response-recorded")
	chk("C12 C16", vf.All(nreq == s.M, nresp == nresp0+1, nact == nact0-1), "records-move-pending-to-answered")
	chk("C07", k.GetRequestVolume(ctx, s.Consumer, Svc, s.Provs[0]) == s.Vol0[0]+1, "volume-moves-by-one")
	chk("C12", vf.All(post.BatchResponseCount == pre.BatchResponseCount+1, post.BatchRequestCount == pre.BatchRequestCount), "response-count-incremented")
	all := nresp0+1 == s.M
	if all {
		chk("C12 C02", post.BatchState == types.BATCHCOMPLETED, "batch-completed-when-all-answered")
	} else {
		chk("C12 C02 C01 C08 C16", post.BatchState == types.BATCHRUNNING, "batch-not-completed-early")
	}
	if pre.ModuleName != "" {
		if all {
			nOut := 0
			for j := 0; j < s.M; j++ {
				if (j == 0 && output != "") || (j > 0 && s.Output[j] != "") {
					nOut++
				}
			}
			chk("C12", len(s.Log.Resp) == 1, "callback-once-on-completion")
			if len(s.Log.Resp) == 1 {
				chk("C12", len(s.Log.Resp[0].Outputs) == nOut, "callback-outputs-are-nonempty-outputs")
				chk("C12", s.Log.Resp[0].Err == (nOut < int(pre.BatchResponseThreshold)), "callback-error-iff-below-threshold")
			}
		} else {
			chk("C12", len(s.Log.Resp) == 0, "no-callback-before-completion")
		}
	}
	// other providers' earnings and bindings untouched
	for i := 1; i < s.N; i++ {
		e, _ := k.GetEarnedFees(ctx, s.Provs[i])
		chk("C13", e.AmountOf(Denom).Equal(s.Earned0[i]), "other-provider-earnings-untouched")
	}
}
