package h

import "github.com/irismod/service/keeper"

type keeperT = keeper.Keeper

// ---------------------------------------------------------------- scene options per tier
//
// Quick tier: the bounds below. Thorough tier: the CxxT_ harnesses add wider bounds
// (more providers per context, slashing together with lifecycle, both promotion kinds,
// same-block restart, short addresses).

var (
	nbWide   = ReqOpts{MaxProv: 2, OnlyState: -1}                                                // new batch, <=2 providers, bindings present or not
	nbMod    = ReqOpts{MaxProv: 2, OnlyState: -1, Module: true}                                  // + contexts of another module (callbacks)
	nbOne    = ReqOpts{MaxProv: 1, OnlyState: -1}                                                // new batch, one provider
	exLife   = ReqOpts{MaxProv: 2, OnlyState: -1, NoSlash: true, OneOutput: true}                // expiry, lifecycle-focused (slash fraction 0)
	exSlash  = ReqOpts{MaxProv: 1, OnlyState: -1, OneOutput: true, AnyDeposit: true}             // expiry, one provider, slashing symbolic
	exMod    = ReqOpts{MaxProv: 2, OnlyState: -1, NoSlash: true, Module: true, ModuleOnly: true} // expiry with callbacks and all output shapes
	exOne    = ReqOpts{MaxProv: 1, OnlyState: -1, NoSlash: true, OneOutput: true}                // expiry, smallest
	rsWide   = ReqOpts{MaxProv: 2, OnlyState: -1, OneOutput: true}                               // respond, <=2 requests in the batch
	rsMod    = ReqOpts{MaxProv: 2, OnlyState: 0, Module: true, ModuleOnly: true, NoSlash: true}  // respond with callbacks
	rsOne    = ReqOpts{MaxProv: 1, OnlyState: -1, OneOutput: true, AnyDeposit: true}             // respond, one request
	cmOne    = ReqOpts{MaxProv: 1, OnlyState: -1, Module: true, ModuleGone: true}                // context messages
	bmPlain  = BindOpts{NT: 0, NV: 0}
	wdQuick  = WdOpts{LenP0: 20, LenP1: 20}
	gnQuick  = ReqOpts{MaxProv: 1, OnlyState: -1}
	qrQuick  = ReqOpts{MaxProv: 2, OnlyState: -1, OneOutput: true}
	nbByTime = ReqOpts{MaxProv: 1, OnlyState: 0, NT: 1, NV: 0, AllBound: true}
	nbByVol  = ReqOpts{MaxProv: 1, OnlyState: 0, NT: 0, NV: 2, AllBound: true}
)

// C01 escrow exactly backed
func C01_NewBatch() { focus = "C01"; sceneNewBatch(nbWide) }
func C01_Expiry()   { focus = "C01"; sceneExpiry(exLife) }
func C01_Respond()  { focus = "C01"; sceneRespond(rsWide) }
func C01_Withdraw() { focus = "C01"; sceneWithdraw(wdQuick) }
func C01_Update()   { focus = "C01"; sceneCtxMsg(opUpdate, cmOne) }
func C01_Genesis()  { focus = "C01"; sceneGenesis(gnQuick) }

// C02 each paid request settled once
func C02_NewBatch() { focus = "C02"; sceneNewBatch(nbWide) }
func C02_Expiry()   { focus = "C02"; sceneExpiry(exLife) }
func C02_Respond()  { focus = "C02"; sceneRespond(rsWide) }
func C02_Call()     { focus = "C02"; sceneCall() }

// C03 deposits in custody
func C03_Bind()        { focus = "C03"; sceneBindingMsg(opBind, bmPlain) }
func C03_Update()      { focus = "C03"; sceneBindingMsg(opUpdBinding, bmPlain) }
func C03_Enable()      { focus = "C03"; sceneBindingMsg(opEnable, bmPlain) }
func C03_Disable()     { focus = "C03"; sceneBindingMsg(opDisable, bmPlain) }
func C03_Refund()      { focus = "C03"; sceneBindingMsg(opRefund, bmPlain) }
func C03_ExpirySlash() { focus = "C03"; sceneExpiry(exSlash) }
func C03_Respond()     { focus = "C03"; sceneRespond(rsOne) }
func C03_NewBatch()    { focus = "C03"; sceneNewBatch(nbOne) }

// C04 slashed exactly on failure
func C04_ExpirySlash() { focus = "C04"; sceneExpiry(exSlash) }
func C04_Respond()     { focus = "C04"; sceneRespond(rsOne) }
func C04_NewBatch()    { focus = "C04"; sceneNewBatch(nbOne) }
func C04_Disable()     { focus = "C04"; sceneBindingMsg(opDisable, bmPlain) }
func C04_Refund()      { focus = "C04"; sceneBindingMsg(opRefund, bmPlain) }
func C04_Update()      { focus = "C04"; sceneBindingMsg(opUpdBinding, bmPlain) }

// C05 authority, debits only the signer
func C05_Bind()          { focus = "C05"; sceneBindingMsg(opBind, bmPlain) }
func C05_UpdateBinding() { focus = "C05"; sceneBindingMsg(opUpdBinding, bmPlain) }
func C05_Enable()        { focus = "C05"; sceneBindingMsg(opEnable, bmPlain) }
func C05_Disable()       { focus = "C05"; sceneBindingMsg(opDisable, bmPlain) }
func C05_Refund()        { focus = "C05"; sceneBindingMsg(opRefund, bmPlain) }
func C05_Pause()         { focus = "C05"; sceneCtxMsg(opPause, cmOne) }
func C05_Start()         { focus = "C05"; sceneCtxMsg(opStart, cmOne) }
func C05_Kill()          { focus = "C05"; sceneCtxMsg(opKill, cmOne) }
func C05_Update()        { focus = "C05"; sceneCtxMsg(opUpdate, cmOne) }
func C05_Respond()       { focus = "C05"; sceneRespond(rsWide) }
func C05_Withdraw()      { focus = "C05"; sceneWithdraw(wdQuick) }
func C05_SetWithdraw()   { focus = "C05"; sceneSetWithdraw() }
func C05_NewBatch()      { focus = "C05"; sceneNewBatch(nbWide) }
func C05_Call()          { focus = "C05"; sceneCall() }

// C06 eligible providers, fee cap
func C06_NewBatch() { focus = "C06"; sceneNewBatch(nbWide) }
func C06_Update()   { focus = "C06"; sceneCtxMsg(opUpdate, cmOne) }
func C06_Call()     { focus = "C06"; sceneCall() }
func C06_Bind()     { focus = "C06"; sceneBindingMsg(opBind, bmPlain) }

// C07 pricing
func C07_Discounts()        { n := choice4(); discounts(n/2, n%2+1) }
func C07_NewBatch()         { focus = "C07"; sceneNewBatch(nbWide) }
func C07_NewBatchByTime()   { focus = "C07"; sceneNewBatch(nbByTime) }
func C07_NewBatchByVolume() { focus = "C07"; sceneNewBatch(nbByVol) }
func C07_Respond()          { focus = "C07"; sceneRespond(rsOne) }
func C07_UpdateBinding()    { focus = "C07"; sceneBindingMsg(opUpdBinding, BindOpts{NT: 1, NV: 1}) }
func C07T_Discounts()       { discounts(2, 3) }

// C08 response window
func C08_Respond()  { focus = "C08"; sceneRespond(rsWide) }
func C08_Expiry()   { focus = "C08"; sceneExpiry(exLife) }
func C08_NewBatch() { focus = "C08"; sceneNewBatch(nbWide) }
func C08_Pause()    { focus = "C08"; sceneCtxMsg(opPause, cmOne) }
func C08_Kill()     { focus = "C08"; sceneCtxMsg(opKill, cmOne) }
func C08_Update()   { focus = "C08"; sceneCtxMsg(opUpdate, cmOne) }
func C08_Call()     { focus = "C08"; sceneCall() }

// C09 lifecycle
func C09_Pause()    { focus = "C09"; sceneCtxMsg(opPause, cmOne) }
func C09_Start()    { focus = "C09"; sceneCtxMsg(opStart, cmOne) }
func C09_Kill()     { focus = "C09"; sceneCtxMsg(opKill, cmOne) }
func C09_Update()   { focus = "C09"; sceneCtxMsg(opUpdate, cmOne) }
func C09_Call()     { focus = "C09"; sceneCall() }
func C09_NewBatch() { focus = "C09"; sceneNewBatch(nbWide) }
func C09_Expiry()   { focus = "C09"; sceneExpiry(exLife) }
func C09_Respond()  { focus = "C09"; sceneRespond(rsOne) }

// C10 cadence and total
func C10_Start()    { focus = "C10"; sceneCtxMsg(opStart, cmOne) }
func C10_Update()   { focus = "C10"; sceneCtxMsg(opUpdate, cmOne) }
func C10_Pause()    { focus = "C10"; sceneCtxMsg(opPause, cmOne) }
func C10_Call()     { focus = "C10"; sceneCall() }
func C10_NewBatch() { focus = "C10"; sceneNewBatch(nbWide) }
func C10_Expiry()   { focus = "C10"; sceneExpiry(exLife) }

// C11 never stranded
func C11_Pause()    { focus = "C11"; sceneCtxMsg(opPause, cmOne) }
func C11_Start()    { focus = "C11"; sceneCtxMsg(opStart, cmOne) }
func C11_Kill()     { focus = "C11"; sceneCtxMsg(opKill, cmOne) }
func C11_Update()   { focus = "C11"; sceneCtxMsg(opUpdate, cmOne) }
func C11_Call()     { focus = "C11"; sceneCall() }
func C11_NewBatch() { focus = "C11"; sceneNewBatch(nbWide) }
func C11_Expiry()   { focus = "C11"; sceneExpiry(exLife) }

// C12 bookkeeping and callbacks
func C12_NewBatch() { focus = "C12"; sceneNewBatch(nbMod) }
func C12_Expiry()   { focus = "C12"; sceneExpiry(exMod) }
func C12_Respond()  { focus = "C12"; sceneRespond(rsMod) }
func C12_Update()   { focus = "C12"; sceneCtxMsg(opUpdate, cmOne) }

// C13 earnings
func C13_Withdraw()         { focus = "C13"; sceneWithdraw(wdQuick) }
func C13_SetWithdraw()      { focus = "C13"; sceneSetWithdraw() }
func C13_Respond()          { focus = "C13"; sceneRespond(rsWide) }
func C13T_WithdrawShort12() { focus = "C13"; sceneWithdraw(WdOpts{LenP0: 1, LenP1: 2}) }
func C13T_WithdrawShort21() { focus = "C13"; sceneWithdraw(WdOpts{LenP0: 2, LenP1: 1}) }

// C14 minimum deposit
func C14_Bind()        { focus = "C14"; sceneBindingMsg(opBind, bmPlain) }
func C14_Update()      { focus = "C14"; sceneBindingMsg(opUpdBinding, bmPlain) }
func C14_Enable()      { focus = "C14"; sceneBindingMsg(opEnable, bmPlain) }
func C14_Disable()     { focus = "C14"; sceneBindingMsg(opDisable, bmPlain) }
func C14_Refund()      { focus = "C14"; sceneBindingMsg(opRefund, bmPlain) }
func C14_ExpirySlash() { focus = "C14"; sceneExpiry(exSlash) }
func C14_Respond()     { focus = "C14"; sceneRespond(rsOne) }
func C14_NewBatch()    { focus = "C14"; sceneNewBatch(nbOne) }

// C15 definitions and bindings
func C15_Bind()    { focus = "C15"; sceneBindingMsg(opBind, bmPlain) }
func C15_Update()  { focus = "C15"; sceneBindingMsg(opUpdBinding, bmPlain) }
func C15_Enable()  { focus = "C15"; sceneBindingMsg(opEnable, bmPlain) }
func C15_Disable() { focus = "C15"; sceneBindingMsg(opDisable, bmPlain) }
func C15_Refund()  { focus = "C15"; sceneBindingMsg(opRefund, bmPlain) }
func C15_Define()  { focus = "C15"; sceneDefine() }
func C15_Call()    { focus = "C15"; sceneCall() }
func C15_Expiry()  { focus = "C15"; sceneExpiry(exOne) }
func C15_Queries() { focus = "C15"; sceneQuery(qrQuick) }
func C15_Genesis() { focus = "C15"; sceneGenesis(gnQuick) }

// C16 nothing left behind
func C16_Expiry()   { focus = "C16"; sceneExpiry(exLife) }
func C16_NewBatch() { focus = "C16"; sceneNewBatch(nbWide) }
func C16_Respond()  { focus = "C16"; sceneRespond(rsOne) }
func C16_Kill()     { focus = "C16"; sceneCtxMsg(opKill, cmOne) }
func C16_Call()     { focus = "C16"; sceneCall() }

// C17 queries
func C17_Queries() { focus = "C17"; sceneQuery(qrQuick) }

// C18 identifiers and keys (pure harnesses in c18.go) + ids assigned at issue and at call
func C18_NewBatch() { focus = "C18"; sceneNewBatch(nbWide) }
func C18_Call()     { focus = "C18"; sceneCall() }

// C19 export / import
func C19_Genesis()  { focus = "C19"; sceneGenesis(gnQuick) }
func C19_EnumJSON() { focus = "C19"; sceneEnumJSON() }

// C20 determinism and no panics
func C20_NewBatch()      { focus = "C20"; sceneNewBatch(nbWide) }
func C20_Expiry()        { focus = "C20"; sceneExpiry(exSlash) }
func C20_Respond()       { focus = "C20"; sceneRespond(rsOne) }
func C20_Pause()         { focus = "C20"; sceneCtxMsg(opPause, cmOne) }
func C20_Start()         { focus = "C20"; sceneCtxMsg(opStart, cmOne) }
func C20_Kill()          { focus = "C20"; sceneCtxMsg(opKill, cmOne) }
func C20_Update()        { focus = "C20"; sceneCtxMsg(opUpdate, cmOne) }
func C20_Bind()          { focus = "C20"; sceneBindingMsg(opBind, bmPlain) }
func C20_UpdateBinding() { focus = "C20"; sceneBindingMsg(opUpdBinding, bmPlain) }
func C20_Enable()        { focus = "C20"; sceneBindingMsg(opEnable, bmPlain) }
func C20_Disable()       { focus = "C20"; sceneBindingMsg(opDisable, bmPlain) }
func C20_Refund()        { focus = "C20"; sceneBindingMsg(opRefund, bmPlain) }
func C20_Withdraw()      { focus = "C20"; sceneWithdraw(wdQuick) }
func C20_SetWithdraw()   { focus = "C20"; sceneSetWithdraw() }
func C20_Call()          { focus = "C20"; sceneCall() }
func C20_Define()        { focus = "C20"; sceneDefine() }
func C20_Genesis()       { focus = "C20"; sceneGenesis(gnQuick) }
func C20_DeterminismNewBatch() {
	focus = "C20"
	sceneDeterminism(ReqOpts{MaxProv: 2, OnlyState: 0, AllBound: true}, false)
}
func C20_DeterminismExpiry() {
	focus = "C20"
	sceneDeterminism(ReqOpts{MaxProv: 1, OnlyState: -1, NoSlash: true, OneOutput: true}, true)
}

// frequency == timeout: expiry and next start in one block; two failures of one provider in one block
var rtQuick = ReqOpts{MaxProv: 1}

func C11_Restart()     { focus = "C11"; sceneRestart(rtQuick) }
func C01_Restart()     { focus = "C01"; sceneRestart(rtQuick) }
func C10_Restart()     { focus = "C10"; sceneRestart(rtQuick) }
func C04_DoubleSlash() { focus = "C04"; sceneDoubleSlash() }
func C03_DoubleSlash() { focus = "C03"; sceneDoubleSlash() }
func C14_DoubleSlash() { focus = "C14"; sceneDoubleSlash() }

// ---- scenes a property depends on through the shared state invariant (queue, bookkeeping)
func C06_NewBatchByVolume()       { focus = "C06"; sceneNewBatch(nbByVol) }
func C06_NewBatchByTime()         { focus = "C06"; sceneNewBatch(nbByTime) }
func C01_Pause()                  { focus = "C01"; sceneCtxMsg(opPause, cmOne) }
func C01_Start()                  { focus = "C01"; sceneCtxMsg(opStart, cmOne) }
func C01_Kill()                   { focus = "C01"; sceneCtxMsg(opKill, cmOne) }
func C02_Pause()                  { focus = "C02"; sceneCtxMsg(opPause, cmOne) }
func C02_Start()                  { focus = "C02"; sceneCtxMsg(opStart, cmOne) }
func C02_Kill()                   { focus = "C02"; sceneCtxMsg(opKill, cmOne) }
func C08_Start()                  { focus = "C08"; sceneCtxMsg(opStart, cmOne) }
func C12_Pause()                  { focus = "C12"; sceneCtxMsg(opPause, cmOne) }
func C12_Start()                  { focus = "C12"; sceneCtxMsg(opStart, cmOne) }
func C12_Kill()                   { focus = "C12"; sceneCtxMsg(opKill, cmOne) }
func C16_Pause()                  { focus = "C16"; sceneCtxMsg(opPause, cmOne) }
func C16_Start()                  { focus = "C16"; sceneCtxMsg(opStart, cmOne) }
func C16_Update()                 { focus = "C16"; sceneCtxMsg(opUpdate, cmOne) }
func C13_Bind()                   { focus = "C13"; sceneBindingMsg(opBind, bmPlain) }
func C13_Enable()                 { focus = "C13"; sceneBindingMsg(opEnable, bmPlain) }
func C20_DeterminismTwoContexts() { focus = "C20"; sceneDeterminismTwo() }

// ---------------------------------------------------------------- thorough tier (in addition to the quick harnesses)
var (
	nb3      = ReqOpts{MaxProv: 3, OnlyState: 0}                               // batch start, up to 3 listed providers
	exSlash2 = ReqOpts{MaxProv: 2, OnlyState: -1, OneOutput: true}             // expiry, two slashed bindings, all lifecycle states
	rsAll    = ReqOpts{MaxProv: 2, OnlyState: -1, Module: true}                // respond, slashing and callbacks together
	exRst    = ReqOpts{MaxProv: 2}                                             // same-block restart with two providers
	nbBoth   = ReqOpts{MaxProv: 1, OnlyState: 0, NT: 1, NV: 1, AllBound: true} // both promotion kinds (two symbolic discounts)
)

func C01T_Expiry()   { focus = "C01"; sceneExpiry(exSlash2) }
func C01T_NewBatch() { focus = "C01"; sceneNewBatch(nb3) }
func C01T_Restart()  { focus = "C01"; sceneRestart(exRst) }
func C02T_Expiry()   { focus = "C02"; sceneExpiry(exSlash2) }
func C02T_NewBatch() { focus = "C02"; sceneNewBatch(nb3) }
func C03T_Expiry()   { focus = "C03"; sceneExpiry(exSlash2) }
func C03T_Respond()  { focus = "C03"; sceneRespond(rsAll) }
func C04T_Expiry()   { focus = "C04"; sceneExpiry(exSlash2) }
func C04T_Respond()  { focus = "C04"; sceneRespond(rsAll) }
func C06T_NewBatch() { focus = "C06"; sceneNewBatch(nb3) }
func C07T_NewBatch() { focus = "C07"; sceneNewBatch(nbBoth) }
func C08T_Expiry()   { focus = "C08"; sceneExpiry(exSlash2) }
func C09T_Expiry()   { focus = "C09"; sceneExpiry(exSlash2) }
func C10T_Restart()  { focus = "C10"; sceneRestart(exRst) }
func C11T_Restart()  { focus = "C11"; sceneRestart(exRst) }
func C11T_Expiry()   { focus = "C11"; sceneExpiry(exSlash2) }
func C12T_Respond()  { focus = "C12"; sceneRespond(rsAll) }
func C12T_NewBatch() { focus = "C12"; sceneNewBatch(ReqOpts{MaxProv: 3, OnlyState: 0, Module: true}) }
func C14T_Expiry()   { focus = "C14"; sceneExpiry(exSlash2) }
func C16T_Expiry()   { focus = "C16"; sceneExpiry(exSlash2) }
func C16T_Restart()  { focus = "C16"; sceneRestart(exRst) }
func C20T_Expiry()   { focus = "C20"; sceneExpiry(exSlash2) }
func C20T_NewBatch() { focus = "C20"; sceneNewBatch(nb3) }
func C20T_DeterminismExpiry() {
	focus = "C20"
	sceneDeterminism(ReqOpts{MaxProv: 2, OnlyState: -1, NoSlash: true, OneOutput: true}, true)
}

// fractional discounted prices (rounding) matter to escrow and settlement too
func C01_NewBatchByVolume() { focus = "C01"; sceneNewBatch(nbByVol) }
func C02_NewBatchByVolume() { focus = "C02"; sceneNewBatch(nbByVol) }
func C17_Bind()             { focus = "C17"; sceneBindingMsg(opBind, bmPlain) }

// both promotion kinds in effect, with the two discounts fixed to concrete values (one of three pairs) so that
// the fee stays linear in the symbolic base price
func C07_NewBatchBothPromotions() {
	focus = "C07"
	sceneNewBatch(ReqOpts{MaxProv: 1, OnlyState: 0, NT: 1, NV: 1, AllBound: true, FixDiscounts: true})
}

func C02_RespondModule() { focus = "C02"; sceneRespond(rsMod) }
func C01_RespondModule() { focus = "C01"; sceneRespond(rsMod) }
func C02_DoubleSlash()   { focus = "C02"; sceneDoubleSlash() }
func C01_DoubleSlash()   { focus = "C01"; sceneDoubleSlash() }

func C16_RespondModule() { focus = "C16"; sceneRespond(rsMod) }
func C08_RespondModule() { focus = "C08"; sceneRespond(rsMod) }

// a provider address longer than 20 bytes (stateless validation admits it)
func C13_WithdrawLong() { focus = "C13"; sceneWithdraw(WdOpts{LenP0: 21, LenP1: 20}) }

// ---- history skeleton from an empty state (thorough tier)
func C01_Skeleton() { focus = "C01"; sceneSkeleton(1) }
func C02_Skeleton() { focus = "C02"; sceneSkeleton(1) }
func C03_Skeleton() { focus = "C03"; sceneSkeleton(1) }
func C09_Skeleton() { focus = "C09"; sceneSkeleton(1) }
func C10_Skeleton() { focus = "C10"; sceneSkeleton(1) }
func C11_Skeleton() { focus = "C11"; sceneSkeleton(1) }
func C12_Skeleton() { focus = "C12"; sceneSkeleton(1) }
func C13_Skeleton() { focus = "C13"; sceneSkeleton(1) }
func C16_Skeleton() { focus = "C16"; sceneSkeleton(1) }
func C20_Skeleton() { focus = "C20"; sceneSkeleton(1) }

// ---- binding life history from an empty state
func C03_BindingHistory() { focus = "C03"; sceneBindingHistory() }
func C14_BindingHistory() { focus = "C14"; sceneBindingHistory() }
func C15_BindingHistory() { focus = "C15"; sceneBindingHistory() }

// ---- thorough: deeper variants
var (
	exLife3 = ReqOpts{MaxProv: 3, OnlyState: -1, NoSlash: true, OneOutput: true}
	rs3     = ReqOpts{MaxProv: 3, OnlyState: 0, OneOutput: true, NoSlash: true}
)

func C01T_Skeleton2() { focus = "C01"; sceneSkeleton(2) }
func C02T_Skeleton2() { focus = "C02"; sceneSkeleton(2) }
func C11T_Skeleton2() { focus = "C11"; sceneSkeleton(2) }
func C12T_Skeleton2() { focus = "C12"; sceneSkeleton(2) }
func C13T_Skeleton2() { focus = "C13"; sceneSkeleton(2) }
func C16T_Skeleton2() { focus = "C16"; sceneSkeleton(2) }
func C16T_Expiry3()   { focus = "C16"; sceneExpiry(exLife3) }
func C12T_Expiry3() {
	focus = "C12"
	sceneExpiry(ReqOpts{MaxProv: 3, OnlyState: -1, NoSlash: true, Module: true, ModuleOnly: true, OneOutput: true})
}
func C09T_Expiry3()  { focus = "C09"; sceneExpiry(exLife3) }
func C02T_Expiry3()  { focus = "C02"; sceneExpiry(exLife3) }
func C08T_Respond3() { focus = "C08"; sceneRespond(rs3) }
func C13T_Respond3() { focus = "C13"; sceneRespond(rs3) }
func C05T_NewBatch() { focus = "C05"; sceneNewBatch(nb3) }
func C18T_NewBatch() { focus = "C18"; sceneNewBatch(nb3) }

// ---- two contexts processed in one block
func C10_TwoNewBatches() { focus = "C10"; sceneTwoNewBatches() }
func C11_TwoNewBatches() { focus = "C11"; sceneTwoNewBatches() }
func C06_TwoNewBatches() { focus = "C06"; sceneTwoNewBatches() }
func C01_TwoNewBatches() { focus = "C01"; sceneTwoNewBatches() }
func C16_TwoNewBatches() { focus = "C16"; sceneTwoNewBatches() }
func C20_TwoNewBatches() { focus = "C20"; sceneTwoNewBatches() }
func C16_DoubleSlash()   { focus = "C16"; sceneDoubleSlash() }
func C11_DoubleSlash()   { focus = "C11"; sceneDoubleSlash() }
func C08_DoubleSlash()   { focus = "C08"; sceneDoubleSlash() }

// ---- bindings that fell below a raised minimum; promotions in updates
func C14_UpdateAfterParamChange() {
	focus = "C14"
	sceneBindingMsg(opUpdBinding, BindOpts{AnyDeposit: true})
}
func C14_EnableAfterParamChange() {
	focus = "C14"
	sceneBindingMsg(opEnable, BindOpts{AnyDeposit: true})
}
func C15_UpdatePromotions() { focus = "C15"; sceneBindingMsg(opUpdBinding, BindOpts{NT: 1, NV: 1}) }
func C09_TwoNewBatches()    { focus = "C09"; sceneTwoNewBatches() }
func C05_TwoNewBatches()    { focus = "C05"; sceneTwoNewBatches() }

// C18: every prefix scan behind a list query returns exactly the records of its subject
func C18_Scans() { focus = "C18"; sceneQuery(qrQuick) }

// C20: maximal numeric fields. The SDK's integers panic beyond 255 bits; a message may carry amounts and
// prices up to that size, the state holds what a chain can hold.
func C20_BindHuge()     { focus = "C20"; sceneBindingMsg(opBind, BindOpts{Huge: true}) }
func C20_UpdateHuge()   { focus = "C20"; sceneBindingMsg(opUpdBinding, BindOpts{Huge: true}) }
func C20_EnableHuge()   { focus = "C20"; sceneBindingMsg(opEnable, BindOpts{Huge: true}) }
func C20_ExpiryHuge()   { focus = "C20"; o := exSlash; o.Huge = true; sceneExpiry(o) }
func C20_NewBatchHuge() { focus = "C20"; o := nbWide; o.Huge = true; sceneNewBatch(o) }
func C20_RespondHuge()  { focus = "C20"; o := rsOne; o.Huge = true; sceneRespond(o) }
func C20_CallHuge()     { focus = "C20"; callHuge = true; sceneCall() }

// ---- round-4 scenes
func C01_Bind()          { focus = "C01"; sceneBindingMsg(opBind, bmPlain) }
func C01_UpdateBinding() { focus = "C01"; sceneBindingMsg(opUpdBinding, bmPlain) }
func C01_Enable()        { focus = "C01"; sceneBindingMsg(opEnable, bmPlain) }
func C01_RefundDeposit() { focus = "C01"; sceneBindingMsg(opRefund, bmPlain) }
func C15_UpdateDropsPromotions() {
	focus = "C15"
	sceneBindingMsg(opUpdBinding, BindOpts{NT: 1, NV: 1, MsgPlain: true})
}
func C07_UpdateDropsPromotions() {
	focus = "C07"
	sceneBindingMsg(opUpdBinding, BindOpts{NT: 1, NV: 1, MsgPlain: true})
}
func C05_Genesis() { focus = "C05"; sceneGenesis(gnQuick) }
func C06_NewBatchAfterParamChange() {
	focus = "C06"
	o := nbWide
	o.AnyDeposit = true
	sceneNewBatch(o)
}
func C15_UpdateLoosePricing() {
	focus = "C15"
	sceneBindingMsg(opUpdBinding, BindOpts{NT: 1, NV: 1, MsgLoose: true})
}
func C15_BindLoosePricing() {
	focus = "C15"
	sceneBindingMsg(opBind, BindOpts{NT: 1, NV: 1, MsgLoose: true})
}

// ---- a call of a service registered by another module (answered inside the transaction)
func C01_ModuleCall() { focus = "C01"; sceneModuleCall() }
func C02_ModuleCall() { focus = "C02"; sceneModuleCall() }
func C06_ModuleCall() { focus = "C06"; sceneModuleCall() }
func C09_ModuleCall() { focus = "C09"; sceneModuleCall() }
func C11_ModuleCall() { focus = "C11"; sceneModuleCall() }
func C16_ModuleCall() { focus = "C16"; sceneModuleCall() }
func C20_ModuleCall() { focus = "C20"; sceneModuleCall() }
func C04_ModuleCall() { focus = "C04"; sceneModuleCall() }
func C10_ModuleCall() { focus = "C10"; sceneModuleCall() }

// C20: pricing texts with promotion windows (RFC 3339 admits year 0000)
func C20_BindPromotions()   { focus = "C20"; sceneBindingMsg(opBind, BindOpts{NT: 1, NV: 1}) }
func C20_UpdatePromotions() { focus = "C20"; sceneBindingMsg(opUpdBinding, BindOpts{NT: 1, NV: 1}) }

func C09_PauseNoticeKills() { focus = "C09"; scenePauseNoticeKills() }
func C12_PauseNoticeKills() { focus = "C12"; scenePauseNoticeKills() }

// C18: the scan over all earnings records at zero-height preparation decodes each record's provider
func C18_ZeroHeight() { focus = "C18"; sceneGenesis(gnQuick) }

// C20: prices written as decimal numbers of any length (the pricing schema admits them)
func C20_BindDecimalPrice() {
	focus = "C20"
	sceneBindingMsg(opBind, BindOpts{Huge: true, MsgDec: true})
}
func C20_UpdateDecimalPrice() {
	focus = "C20"
	sceneBindingMsg(opUpdBinding, BindOpts{Huge: true, MsgDec: true})
}

// C03/C04/C14: a zero-height export hands back fees and earnings, not deposits
func C03_Genesis() { focus = "C03"; sceneGenesis(gnQuick) }
func C04_Genesis() { focus = "C04"; sceneGenesis(gnQuick) }
func C14_Genesis() { focus = "C14"; sceneGenesis(gnQuick) }

// C04: a provider is slashed when ITS request times out - which rests on the expiry entry belonging to the batch
// in flight and on the batch bookkeeping, both of which the context messages must leave alone
func C04_Pause()     { focus = "C04"; sceneCtxMsg(opPause, cmOne) }
func C04_Start()     { focus = "C04"; sceneCtxMsg(opStart, cmOne) }
func C04_Kill()      { focus = "C04"; sceneCtxMsg(opKill, cmOne) }
func C04_UpdateCtx() { focus = "C04"; sceneCtxMsg(opUpdate, cmOne) }

// C06: "its current price" is the price the binding publishes: the stored price terms follow every update
func C06_UpdateBinding() { focus = "C06"; sceneBindingMsg(opUpdBinding, bmPlain) }

// C09: the reset of all contexts at zero-height preparation rewrites every context record
func C09_Genesis() { focus = "C09"; sceneGenesis(gnQuick) }

// C13: an owner's withdrawal walks the owner->provider index; binding messages must keep it
func C13_Refund()        { focus = "C13"; sceneBindingMsg(opRefund, bmPlain) }
func C13_Disable()       { focus = "C13"; sceneBindingMsg(opDisable, bmPlain) }
func C13_UpdateBinding() { focus = "C13"; sceneBindingMsg(opUpdBinding, bmPlain) }

// C19: "can be written as JSON and read back": the enum fields of a context through the application's codec
func C19_EnumProtoJSON() { focus = "C19"; sceneEnumProtoJSON() }

// C02 / C13: earnings leave the escrow once (a paid record is reset); pending fees go back once at zero-height
func C02_Withdraw() { focus = "C02"; sceneWithdraw(wdQuick) }
func C02_Genesis()  { focus = "C02"; sceneGenesis(gnQuick) }
func C13_Genesis()  { focus = "C13"; sceneGenesis(gnQuick) }

// round 6
func C07_ModuleCall() { focus = "C07"; sceneModuleCall() }
func C05_ModuleCall() { focus = "C05"; sceneModuleCall() }
func C07_Expiry()     { focus = "C07"; o := exOne; o.Vol = true; sceneExpiry(o) }
func C10_Genesis()    { focus = "C10"; sceneGenesis(gnQuick) }
func C12_RespondAnyState() {
	focus = "C12"
	sceneRespond(ReqOpts{MaxProv: 1, OnlyState: -1, Module: true, ModuleOnly: true, NoSlash: true})
}

func C13_GenesisWithdrawAddrs() { focus = "C13"; sceneGenesisWithdrawAddrs() }
func C19_GenesisWithdrawAddrs() { focus = "C19"; sceneGenesisWithdrawAddrs() }

func C15_ExpirySlash() { focus = "C15"; sceneExpiry(exSlash) }
func C19_ExpirySlash() { focus = "C19"; sceneExpiry(exSlash) }

func C19_Respond() { focus = "C19"; sceneRespond(rsOne) }
