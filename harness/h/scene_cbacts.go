package h

import (
	sdk "github.com/cosmos/cosmos-sdk/types"
	tmbytes "github.com/tendermint/tendermint/libs/bytes"

	service "github.com/irismod/service"
	"github.com/irismod/service/types"

	"vh/vf"
)

// sceneCallbackActs: a repeated, running context of another module has a batch in flight with one pending
// request. When the module is handed the batch's result (response callback) it reacts through the keeper: it
// kills its context, pauses it, or does nothing. The batch is completed either early, by the provider's answer
// (atExpiry false), or when its expiry block ends (atExpiry true). What the module did must last: kill moves
// the context to completed (and an expired batch of a killed context takes the context with it), pause to paused.
func sceneCallbackActs(atExpiry bool) {
	s := NewReqScene(ReqOpts{MaxProv: 1, OnlyState: 0, Module: true, ModuleOnly: true, Batch: true, AtExpiry: atExpiry,
		AllBound: true, MinReq: 1, NoSlash: true, OneOutput: true})
	k, ctx, id, pre := s.K, s.Ctx, s.ID, s.Pre
	vf.Assume(vf.And(s.Active[0], pre.Repeated))
	action := vf.Choice("action", 3) // 0: kill, 1: pause, 2: nothing
	var actErr error
	acted := 0
	s.Log.OnResp = func(c sdk.Context, cid tmbytes.HexBytes) {
		acted++
		switch action {
		case 0:
			actErr = k.KillRequestContext(c, cid, s.Consumer)
		case 1:
			actErr = k.PauseRequestContext(c, cid, s.Consumer)
		}
	}
	if atExpiry {
		panicked := vf.Try(func() { service.EndBlocker(ctx, k) })
		chk("C20", !panicked, "endblock-no-panic")
		vf.Assume(!panicked)
	} else {
		msg := types.NewMsgRespondService(s.ReqIDs[0], s.Provs[0], ResultOK, OutputOK)
		vf.Assume(msg.ValidateBasic() == nil)
		_, err, panicked := vf.Deliver(ctx, service.NewHandler(k), msg)
		chk("C20", !panicked, "respond-no-panic")
		vf.Assume(!panicked)
		chk("C08", err == nil, "answer-accepted")
		vf.Assume(err == nil)
	}
	chk("C12", acted == 1, "module-handed-the-result-once")
	chk("C09 C12", actErr == nil, "module's-reaction-accepted-by-the-keeper")
	vf.Assume(actErr == nil)
	post, found := k.GetRequestContext(ctx, id)
	want := types.RUNNING
	switch action {
	case 0:
		want = types.COMPLETED
	case 1:
		want = types.PAUSED
	}
	if !atExpiry {
		chk("C09 C12", vf.And(found, post.State == want), "what-the-module-does-with-the-result-lasts")
		chk("C12", vf.Implies(found, vf.All(post.BatchState == types.BATCHCOMPLETED, post.BatchResponseCount == 1, post.BatchRequestCount == 1)), "batch-completed-and-counted")
		chk("C11", vf.And(k.HasRequestBatchExpiration(ctx, id), !k.HasNewRequestBatch(ctx, id)), "expiry-still-pending-after-early-completion")
		return
	}
	finished := vf.And(pre.RepeatedTotal > 0, int64(pre.BatchCounter) >= pre.RepeatedTotal)
	switch action {
	case 0: // killed while its batch expires: finished, removed with the batch
		chk("C09 C16 C12", !found, "context-killed-on-its-result-is-removed-at-expiry")
		chk("C11 C10", !k.HasNewRequestBatch(ctx, id), "killed-context-not-rescheduled")
	case 1:
		chk("C09 C12", vf.Implies(!finished, vf.And(found, post.State == types.PAUSED)), "context-paused-on-its-result-stays-paused")
		chk("C11 C10", !k.HasNewRequestBatch(ctx, id), "paused-context-not-rescheduled")
	case 2:
		chk("C09 C10 C11", vf.Implies(!finished, vf.All(found, post.State == types.RUNNING, k.HasNewRequestBatch(ctx, id))), "untouched-context-rescheduled")
	}
	n1, n2, n3 := countRecords(k, ctx, id, pre.BatchCounter)
	chk("C16", vf.All(n1 == 0, n2 == 0, n3 == 0), "batch-records-removed")
}

func C09_ResultCallbackActs()         { focus = "C09"; sceneCallbackActs(false) }
func C12_ResultCallbackActs()         { focus = "C12"; sceneCallbackActs(false) }
func C09_ResultCallbackActsAtExpiry() { focus = "C09"; sceneCallbackActs(true) }
func C12_ResultCallbackActsAtExpiry() { focus = "C12"; sceneCallbackActs(true) }
func C11_ResultCallbackActsAtExpiry() { focus = "C11"; sceneCallbackActs(true) }
func C16_ResultCallbackActsAtExpiry() { focus = "C16"; sceneCallbackActs(true) }
func C20_ResultCallbackActsAtExpiry() { focus = "C20"; sceneCallbackActs(true) }
