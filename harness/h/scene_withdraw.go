package h

import (
	sdk "github.com/cosmos/cosmos-sdk/types"

	service "github.com/irismod/service"
	"github.com/irismod/service/types"

	"vh/vf"
)

type WdOpts struct {
	LenP0, LenP1 int // provider address lengths (20 in the quick tier)
}

// sceneWithdraw: owner O1 owns P0 and P1, owner O2 owns P2; each provider may hold earnings and the
// owners' totals are the sums (EARN); a withdraw message is sent by O1 or a stranger for no provider,
// P0 or P2.
func sceneWithdraw(o WdOpts) {
	k, ctx := vf.Env()
	ctx, _, _ = Block(ctx)
	Define(k, ctx, Svc)
	o1, o2 := vf.Addr("owner1", 20), vf.Addr("owner2", 20)
	distinct(o1, o2)
	p := []sdk.AccAddress{vf.Addr("p0", o.LenP0), vf.Addr("p1", o.LenP1), vf.Addr("p2", 20)}
	distinct(p...)
	owners := []sdk.AccAddress{o1, o1, o2}
	e := make([]sdk.Int, 3)
	tot1, tot2 := sdk.ZeroInt(), sdk.ZeroInt()
	escrow := vf.Amount("escrowRest")
	for i := 0; i < 3; i++ {
		k.SetOwner(ctx, p[i], owners[i])
		k.SetOwnerProvider(ctx, owners[i], p[i])
		e[i] = sdk.ZeroInt()
		if vf.Bool("hasEarned" + digit(i)) {
			e[i] = vf.Amount("earned" + digit(i))
			vf.Assume(e[i].IsPositive())
			k.SetEarnedFees(ctx, p[i], coins(e[i]))
			escrow = escrow.Add(e[i])
		}
	}
	tot1 = e[0].Add(e[1])
	tot2 = e[2]
	if tot1.IsPositive() {
		k.SetOwnerEarnedFees(ctx, o1, coins(tot1))
	}
	if tot2.IsPositive() {
		k.SetOwnerEarnedFees(ctx, o2, coins(tot2))
	}
	// F6 region: one provider address is a proper byte-prefix of another (or of provider||denom)
	inF6 := false
	for i := 0; i < 3; i++ {
		for j := 0; j < 3; j++ {
			if i != j {
				inF6 = vf.Or(inF6, scanCollides(p[i], p[j]))
			}
		}
	}
	// the base denomination may have been changed by governance since the earnings were recorded
	if vf.Bool("baseDenomChanged") {
		prm := k.GetParams(ctx)
		prm.BaseDenom = Gold
		k.SetParams(ctx, prm)
	}
	payee := o1
	if vf.Bool("hasWithdrawAddr") {
		payee = vf.Addr("withdrawAddr", 20)
		k.SetWithdrawAddress(ctx, o1, payee)
	}
	// the withdrawn provider's own account and the other owner may have withdrawal addresses of their own
	// (a provider account can be the owner of other providers): neither is where O1's earnings go
	if vf.Bool("p0HasOwnAddr") {
		a := vf.Addr("p0addr", 20)
		vf.Assume(vf.And(!a.Equals(payee), !p[0].Equals(o1))) // (a provider that is its own owner has the owner's record)
		k.SetWithdrawAddress(ctx, p[0], a)
	}
	if vf.Bool("o2HasAddr") {
		a := vf.Addr("o2addr", 20)
		vf.Assume(!a.Equals(payee))
		k.SetWithdrawAddress(ctx, o2, a)
	}
	vf.SetModuleBalance(types.RequestAccName, escrow)
	balPayee0 := vf.Amount("balPayee")
	vf.SetBalance(payee, balPayee0)

	signer := o1
	rightful := vf.Bool("signedByOwner")
	if !rightful {
		signer = vf.Addr("stranger", 20)
		distinct(signer, o1, o2)
	}
	balSigner0 := vf.Balance(signer)
	var target sdk.AccAddress
	tsel := vf.Choice("target", 4) // 0: whole owner, 1: P0, 2: P2 (another owner's provider), 3: an address nobody registered
	switch tsel {
	case 1:
		target = p[0]
	case 2:
		target = p[2]
	case 3:
		target = vf.Addr("unregistered", 19)
	}
	msg := types.NewMsgWithdrawEarnedFees(signer, target)
	vf.Assume(msg.ValidateBasic() == nil)

	_, err, panicked := vf.Deliver(ctx, service.NewHandler(k), msg)
	chk("C20", !panicked, "withdraw-no-panic")
	vf.Assume(!panicked)

	got := make([]sdk.Int, 3)
	for i := 0; i < 3; i++ {
		c, _ := k.GetEarnedFees(ctx, p[i])
		got[i] = c.AmountOf(Denom)
	}
	t1c, _ := k.GetOwnerEarnedFees(ctx, o1)
	t2c, _ := k.GetOwnerEarnedFees(ctx, o2)
	t1, t2 := t1c.AmountOf(Denom), t2c.AmountOf(Denom)
	esc1 := vf.ModuleBalance(types.RequestAccName)
	paid := vf.Balance(payee).Sub(balPayee0)

	chk("C05 C13", vf.Implies(vf.And(err == nil, tsel != 0), vf.And(rightful, tsel == 1)), "provider-withdrawal-only-by-its-owner")
	chk("C05", vf.Implies(!signer.Equals(payee), vf.Balance(signer).GTE(balSigner0)), "signer-not-debited")
	// O2's books are never touched by O1's or a stranger's message
	chkKF("C13", vf.And(got[2].Equal(e[2]), t2.Equal(tot2)), "other-owner-untouched", "F6", inF6)
	if err != nil || !rightful {
		chkKF("C13 C01", vf.All(got[0].Equal(e[0]), got[1].Equal(e[1]), t1.Equal(tot1)), "unauthorised-or-rejected-leaves-earnings", "F6", inF6)
		if err != nil {
			chk("C01 C13", vf.And(esc1.Equal(escrow), paid.IsZero()), "rejected-no-payout")
		}
		return
	}
	vf.Reach("paid")
	switch tsel {
	case 0:
		chkKF("C13 C02 C01 C20", vf.All(got[0].IsZero(), got[1].IsZero(), t1.IsZero()), "owner-withdrawal-resets-all-its-records", "F6", inF6)
		chkKF("C13 C01", vf.And(paid.Equal(tot1), escrow.Sub(esc1).Equal(tot1)), "owner-withdrawal-pays-owner-total", "F6", inF6)
	case 1:
		chkKF("C13 C02 C01 C20", vf.All(got[0].IsZero(), got[1].Equal(e[1]), t1.Equal(tot1.Sub(e[0]))), "provider-withdrawal-resets-only-that-provider", "F6", inF6)
		chkKF("C13 C01", vf.And(paid.Equal(e[0]), escrow.Sub(esc1).Equal(e[0])), "provider-withdrawal-pays-that-provider", "F6", inF6)
	}
	// EARN after the step
	chkKF("C13", vf.And(t1.Equal(got[0].Add(got[1])), t2.Equal(got[2])), "owner-total-is-sum-of-its-providers", "F6", inF6)
	chkKF("C01", escrow.Sub(esc1).Equal(e[0].Add(e[1]).Add(e[2]).Sub(got[0]).Sub(got[1]).Sub(got[2])), "escrow-releases-exactly-extinguished-earnings", "F6", inF6)
}

// scanCollides: the earnings scan for provider a also returns the record of another provider b,
// i.e. a is a byte-prefix of b||denom (only possible when the two addresses differ in length).
func scanCollides(a, b sdk.AccAddress) bool {
	key := append(append([]byte{}, b...), []byte(Denom)...)
	if len(a) > len(key) || len(a) == len(b) {
		return false
	}
	return string(key[:len(a)]) == string(a)
}

// sceneSetWithdraw: only the owner's own message changes its withdrawal address.
func sceneSetWithdraw() {
	k, ctx := vf.Env()
	ctx, _, _ = Block(ctx)
	o1, o2 := vf.Addr("owner1", 20), vf.Addr("owner2", 20)
	distinct(o1, o2)
	old2 := o2
	if vf.Bool("o2HasAddr") {
		old2 = vf.Addr("o2addr", 20)
		k.SetWithdrawAddress(ctx, o2, old2)
	}
	// the owner may have set an address before; the new one may be any address, the owner's own included
	if vf.Bool("o1HasAddr") {
		k.SetWithdrawAddress(ctx, o1, vf.Addr("o1addr", 20))
	}
	na := vf.Addr("newAddr", 20)
	msg := types.NewMsgSetWithdrawAddress(o1, na)
	vf.Assume(msg.ValidateBasic() == nil)
	_, err, panicked := vf.Deliver(ctx, service.NewHandler(k), msg)
	chk("C20", !panicked, "setwithdraw-no-panic")
	vf.Assume(!panicked)
	chk("C13", err == nil, "setwithdraw-accepted")
	chk("C13 C05", k.GetWithdrawAddress(ctx, o1).Equals(na), "owner-address-set")
	chk("C13 C05", k.GetWithdrawAddress(ctx, o2).Equals(old2), "other-owner-address-untouched")
}
