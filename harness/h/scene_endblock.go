package h

import (
	sdk "github.com/cosmos/cosmos-sdk/types"
	tmbytes "github.com/tendermint/tendermint/libs/bytes"

	service "github.com/irismod/service"
	"github.com/irismod/service/types"

	"vh/vf"
)

// sceneNewBatch: context X has a pending new-batch entry at the current height; EndBlocker runs.
// Oracle: the eligible set, prices and the issue/skip/pause decision recomputed from the pre-state.
func sceneNewBatch(o ReqOpts) {
	o.NewBatch = true
	s := NewReqScene(o)
	k, ctx, id, pre := s.K, s.Ctx, s.ID, s.Pre
	bc, timeout, th := pre.BatchCounter, pre.Timeout, pre.ResponseThreshold
	capAmt := pre.ServiceFeeCap.AmountOf(Denom)

	panicked := vf.Try(func() { service.EndBlocker(ctx, k) })
	chk("C20", !panicked, "endblock-no-panic")
	vf.Assume(!panicked)

	total := sdk.ZeroInt()
	cnt := 0
	elig := make([]bool, s.N)
	fee := make([]sdk.Int, s.N)
	for i := 0; i < s.N; i++ {
		fee[i] = sdk.ZeroInt()
		if s.Binds[i].Present {
			fee[i] = RefPrice(s.Binds[i].Pricing, s.Now, s.Vol0[i])
			if s.Binds[i].Available && s.Binds[i].QoS <= uint64(timeout) && fee[i].LTE(capAmt) {
				elig[i] = true
				cnt++
				total = total.Add(fee[i])
			}
		}
	}
	post, found := k.GetRequestContext(ctx, id)
	chk("C09 C16", found, "ctx-kept")
	vf.Assume(found)
	chk("C11 C10", !k.HasNewRequestBatch(ctx, id), "newbatch-entry-consumed")
	nreq, nresp, nact := countRecords(k, ctx, id, bc+1)
	balC1 := vf.Balance(s.Consumer)
	esc1 := vf.ModuleBalance(types.RequestAccName)
	running := pre.State == types.RUNNING
	enough := cnt > 0 && cnt >= int(th)
	issue := running && enough && (pre.SuperMode || s.BalC0.GTE(total))
	chk("C09", immutableCtx(pre, post), "ctx-immutable-fields")
	chk("C06 C09", sameAddrs(post.Providers, pre.Providers), "provider-list-untouched-by-batch-start")
	chk("C05", vf.ModuleBalance(types.DepositAccName).Equal(s.DepAcc0), "deposits-untouched")
	if issue {
		vf.Reach("issued")
		chk("C06 C12 C16", vf.All(nreq == cnt, nact == cnt, nresp == 0), "requests-exactly-eligible")
		idx := 0
		for i := 0; i < s.N; i++ {
			if !elig[i] {
				continue
			}
			rid := types.GenerateRequestID(id, bc+1, s.H, int16(idx))
			req, ok := k.GetCompactRequest(ctx, rid)
			chk("C06 C18", ok, "request-for-eligible")
			vf.Assume(ok)
			chk("C06 C18", req.Provider.Equals(s.Provs[i]), "request-provider")
			chk("C06 C08 C16", k.IsRequestActive(ctx, rid), "request-active")
			chk("C08 C11 C16", vf.All(req.ExpirationHeight == s.H+timeout, req.RequestHeight == s.H), "request-expiry-fixed-at-issue")
			chk("C16 C18", vf.And(req.RequestContextBatchCounter == bc+1, string(req.RequestContextId) == string(id)), "request-belongs-to-batch")
			if pre.SuperMode {
				chk("C07 C02", req.ServiceFee.Empty(), "super-no-fee")
			} else {
				chk("C07 C01 C06 C02", req.ServiceFee.AmountOf(Denom).Equal(fee[i]), "fee-is-price")
				chk("C06", req.ServiceFee.AmountOf(Denom).LTE(capAmt), "fee-within-cap")
				chk("C07", req.ServiceFee.AmountOf(Denom).LTE(sdk.MaxInt(s.Binds[i].Pricing.Price.AmountOf(Denom), sdk.OneInt())), "fee-at-most-base-price")
			}
			idx++
		}
		// the issue event: off-chain clients find a request again by its position in this list, which is the index in its id
		evs := eventsOf(ctx, types.EventTypeNewBatchRequest)
		chk("C18 C12", len(evs) == 1, "one-issue-event-per-batch")
		if len(evs) == 1 {
			payload, _ := attrOf(evs[0], types.AttributeKeyRequests)
			cid, _ := attrOf(evs[0], types.AttributeKeyRequestContextID)
			listed := vf.JSONRequests(payload)
			chk("C18 C12", vf.And(len(listed) == cnt, cid == tmbytes.HexBytes(id).String()), "issue-event-lists-every-request-of-the-context")
			for i := 0; i < len(listed) && i < cnt; i++ {
				stored, ok := k.GetCompactRequest(ctx, types.GenerateRequestID(id, bc+1, s.H, int16(i)))
				chk("C18", vf.And(ok, sameCompact(listed[i], stored)), "request-id-index-is-the-position-in-the-issue-event")
			}
		}
		if pre.SuperMode {
			chk("C07 C02 C05", balC1.Equal(s.BalC0), "super-no-debit")
			chk("C01", esc1.Equal(s.Esc0), "super-escrow-unchanged")
		} else {
			chk("C02 C07 C01", s.BalC0.Sub(balC1).Equal(total), "debit-is-sum-of-fees")
			chk("C01", esc1.Sub(s.Esc0).Equal(total), "escrow-gains-sum-of-fees")
		}
		chk("C09 C10", vf.All(post.BatchCounter == bc+1, post.BatchState == types.BATCHRUNNING, post.State == types.RUNNING), "batch-started")
		chk("C12 C02 C08 C16 C11 C01", vf.All(int(post.BatchRequestCount) == cnt, post.BatchResponseCount == 0, post.BatchResponseThreshold == th), "batch-counts")
		chk("C11", k.HasRequestBatchExpiration(ctx, id), "expiry-queued")
		chk("C11 C08 C10 C12 C04", expiryAt(k, ctx, id, s.H+timeout), "expiry-at-issue-plus-timeout")
		chk("C12", vf.All(len(s.Log.Resp) == 0, len(s.Log.State) == 0), "no-callback-at-issue")
	} else {
		chk("C06 C16 C10 C01", vf.All(nreq == 0, nact == 0), "no-requests")
		chk("C06 C02 C05", balC1.Equal(s.BalC0), "no-debit")
		chk("C01", esc1.Equal(s.Esc0), "escrow-unchanged")
		if !running {
			vf.Reach("not-running")
			chk("C09", vf.All(post.State == pre.State, post.BatchCounter == bc, post.BatchState == pre.BatchState), "untouched-when-not-running")
			chk("C11", !k.HasRequestBatchExpiration(ctx, id), "no-expiry-when-not-running")
			chk("C12", vf.All(len(s.Log.Resp) == 0, len(s.Log.State) == 0), "no-callback-when-not-running")
		} else if enough {
			vf.Reach("paused-for-funds")
			chk("C06 C09 C10 C01", vf.All(post.State == types.PAUSED, post.BatchCounter == bc, post.BatchState == types.BATCHCOMPLETED), "paused-for-funds")
			chk("C11", !k.HasRequestBatchExpiration(ctx, id), "no-expiry-when-paused")
			if pre.ModuleName != "" {
				chk("C12", vf.All(len(s.Log.State) == 1, len(s.Log.Resp) == 0), "state-callback-on-pause")
			}
		} else {
			vf.Reach("skipped")
			chk("C06 C09 C10", vf.All(post.State == types.RUNNING, post.BatchCounter == bc+1, post.BatchState == types.BATCHRUNNING), "skipped-counts-as-batch")
			chk("C12", vf.All(post.BatchRequestCount == 0, post.BatchResponseCount == 0), "skipped-counts-zero")
			chk("C11 C10 C08", expiryAt(k, ctx, id, s.H+timeout), "skip-expiry-queued")
		}
	}
	// C10: the batch counter never passes the largest total ever in force
	chk("C10", vf.Implies(vf.And(pre.Repeated, !s.Unbounded), int64(post.BatchCounter) <= s.MaxTotal), "counter-within-total")
	chk("C10", vf.Implies(!pre.Repeated, post.BatchCounter <= 1), "one-shot-single-batch")
	// bindings are not touched by a batch start
	for i := 0; i < s.N; i++ {
		if s.Binds[i].Present {
			b, _ := k.GetServiceBinding(ctx, Svc, s.Provs[i])
			chk("C04 C03 C14", vf.All(b.Deposit.AmountOf(Denom).Equal(s.Binds[i].Deposit), b.Available == s.Binds[i].Available), "binding-untouched")
		}
	}
}

func immutableCtx(pre, post types.RequestContext) bool {
	return vf.And(vf.And(post.ServiceName == pre.ServiceName, post.Consumer.Equals(pre.Consumer)),
		vf.And(vf.And(post.Input == pre.Input, post.SuperMode == pre.SuperMode), vf.And(post.Repeated == pre.Repeated, post.ModuleName == pre.ModuleName)))
}

// expiryAt: the context has an expiry entry, queued at exactly height h
func expiryAt(k keeperT, ctx sdk.Context, id []byte, h int64) bool {
	store := vf.Store(ctx)
	return vf.And(k.HasRequestBatchExpiration(ctx, id), store.Has(types.GetExpiredRequestBatchKey(id, h)))
}

func newBatchAt(k keeperT, ctx sdk.Context, id []byte, h int64) bool {
	store := vf.Store(ctx)
	return vf.And(k.HasNewRequestBatch(ctx, id), store.Has(types.GetNewRequestBatchKey(id, h)))
}

// sceneExpiry: the batch in flight of context X expires in this block; EndBlocker runs.
func sceneExpiry(o ReqOpts) {
	o.Batch, o.AtExpiry, o.AllBound, o.ZeroDep = true, true, true, 9
	s := NewReqScene(o)
	k, ctx, id, pre := s.K, s.Ctx, s.ID, s.Pre
	bc := pre.BatchCounter

	panicked := vf.Try(func() { service.EndBlocker(ctx, k) })
	chk("C20", !panicked, "endblock-no-panic")
	vf.Assume(!panicked)

	// ---- settlement of the requests still pending: slash + refund (none in super mode)
	refund := sdk.ZeroInt()
	burned := sdk.ZeroInt()
	nOut := 0
	for j := 0; j < s.M; j++ {
		b := s.Binds[j]
		post, found := k.GetServiceBinding(ctx, Svc, s.Provs[j])
		chk("C15", found, "binding-kept")
		vf.Assume(found)
		if s.Active[j] && !pre.SuperMode {
			refund = refund.Add(s.Fee[j])
			newDep, amt, avail, disabled := SlashRef(k, ctx, b, s.Now)
			burned = burned.Add(amt)
			chk("C04 C03", post.Deposit.AmountOf(Denom).Equal(newDep), "slashed-by-floor-of-fraction")
			chk("C04 C14", post.Available == avail, "auto-disable-iff-below-minimum")
			chk("C04 C20 C03", post.DisabledTime.Equal(disabled), "disabled-time-is-block-time")
			chk("C14", vf.Implies(post.Available, post.Deposit.AmountOf(Denom).GTE(MinDepositRef(k, ctx, b.Pricing.Price.AmountOf(Denom)))), "available-holds-minimum")
		} else {
			chk("C04 C03", vf.All(post.Deposit.AmountOf(Denom).Equal(b.Deposit), post.Available == b.Available, post.DisabledTime.Equal(b.DisabledTime)), "not-slashed-without-failure")
		}
		if !s.Active[j] && s.Output[j] != "" {
			nOut++
		}
		chk("C15", vf.All(post.Owner.Equals(s.Owner), post.Provider.Equals(s.Provs[j]), post.Pricing == b.Text, post.QoS == b.QoS), "binding-identity-stable")
		// whatever is left of the deposit, the stored binding still satisfies the module's validity rules (an exported
		// genesis holding it must validate)
		chk("C15 C19", post.Validate() == nil, "slashed-binding-stays-valid")
	}
	chk("C02 C01", vf.Balance(s.Consumer).Sub(s.BalC0).Equal(refund), "pending-fees-refunded-to-consumer")
	chk("C01 C02", s.Esc0.Sub(vf.ModuleBalance(types.RequestAccName)).Equal(refund), "escrow-releases-exactly-refunds")
	chk("C03 C04", s.DepAcc0.Sub(vf.ModuleBalance(types.DepositAccName)).Equal(burned), "deposit-account-loses-slashed")
	chk("C03 C04", s.Supply0.Sub(vf.Supply()).Equal(burned), "slashed-coins-burned")
	chk("C02", vf.ModuleBalance("fee_collector").Equal(s.Collector0), "no-tax-at-expiry")
	// one slash event per failure, naming the failed request and its provider
	sl := eventsOf(ctx, types.EventTypeServiceSlash)
	nFail := 0
	for j := 0; j < s.M; j++ {
		if s.Active[j] && !pre.SuperMode {
			nFail++
			named := false
			for _, e := range sl {
				er, _ := attrOf(e, types.AttributeKeyRequestID)
				ep, _ := attrOf(e, types.AttributeKeyProvider)
				named = vf.Or(named, vf.And(er == s.ReqIDs[j].String(), ep == s.Provs[j].String()))
			}
			chk("C04", named, "slash-event-names-the-failed-request-and-its-provider")
		}
	}
	chk("C04", len(sl) == nFail, "one-slash-event-per-failure")

	// the volume a provider has delivered to the consumer is not per context: it survives the batch and the context
	if o.Vol {
		for j := 0; j < s.N; j++ {
			chk("C07", k.GetRequestVolume(ctx, s.Consumer, Svc, s.Provs[j]) == s.Vol0[j], "delivered-volume-survives-expiry")
		}
	}

	// ---- clean-up: nothing of the batch remains
	nreq, nresp, nact := countRecords(k, ctx, id, bc)
	chk("C16 C08", vf.All(nreq == 0, nresp == 0, nact == 0), "batch-records-removed")
	for j := 0; j < s.M; j++ {
		chk("C08 C16 C11", !k.IsRequestActive(ctx, s.ReqIDs[j]), "no-longer-pending")
		chk("C16 C11 C08", !vf.Store(ctx).Has(types.GetActiveRequestKey(Svc, s.Provs[j], s.ExpH, s.ReqIDs[j])), "binding-marker-removed")
	}
	chk("C11", vf.All(!k.HasRequestBatchExpiration(ctx, id), !vf.Store(ctx).Has(types.GetExpiredRequestBatchKey(id, s.H))), "expiry-entry-consumed")

	// ---- callbacks: exactly one per batch, at completion
	if pre.ModuleName != "" {
		if pre.BatchState == types.BATCHRUNNING {
			chk("C12", len(s.Log.Resp) == 1, "callback-once-at-expiry")
			if len(s.Log.Resp) == 1 {
				chk("C12", len(s.Log.Resp[0].Outputs) == nOut, "callback-outputs-are-nonempty-outputs")
				chk("C12", s.Log.Resp[0].Err == (nOut < int(pre.BatchResponseThreshold)), "callback-error-iff-below-threshold")
				chk("C12", string(s.Log.Resp[0].ID) == string(id), "callback-context")
			}
		} else {
			chk("C12", len(s.Log.Resp) == 0, "no-second-callback-after-early-completion")
		}
		chk("C12", len(s.Log.State) == 0, "no-state-callback-at-expiry")
	}

	// ---- the context: removed when finished, otherwise rescheduled (running) or left (paused)
	post, found := k.GetRequestContext(ctx, id)
	finished := vf.Or(pre.State == types.COMPLETED,
		vf.Or(!pre.Repeated, vf.And(pre.RepeatedTotal > 0, int64(bc) >= pre.RepeatedTotal)))
	finishedRunningOrKilled := vf.Or(pre.State == types.COMPLETED, vf.And(pre.State == types.RUNNING,
		vf.Or(!pre.Repeated, vf.And(pre.RepeatedTotal > 0, int64(bc) >= pre.RepeatedTotal))))
	chk("C16 C09", vf.Implies(finishedRunningOrKilled, !found), "finished-context-removed")
	// a paused context whose total is reached is finished as well (it can never legally run again)
	chk("C16 C10", vf.Implies(finished, !found), "finished-paused-context-removed")
	chk("C16 C09", vf.Implies(!finished, found), "unfinished-context-kept")
	if found {
		chk("C09", post.State == pre.State, "state-unchanged-at-expiry")
		chk("C12 C09", post.BatchState == types.BATCHCOMPLETED, "batch-completed-at-expiry")
		chk("C09 C10", post.BatchCounter == bc, "counter-unchanged-at-expiry")
		chk("C09", immutableCtx(pre, post), "ctx-immutable-fields")
		if pre.State == types.RUNNING {
			chk("C10 C11", newBatchAt(k, ctx, id, s.H-pre.Timeout+int64(pre.RepeatedFrequency)), "next-batch-at-start-plus-frequency")
			chk("C10 C11", s.H-pre.Timeout+int64(pre.RepeatedFrequency) >= s.H, "next-batch-not-in-the-past")
		} else {
			chk("C11 C09", !k.HasNewRequestBatch(ctx, id), "paused-context-not-rescheduled")
		}
	} else {
		chk("C11 C16", !k.HasNewRequestBatch(ctx, id), "removed-context-not-rescheduled")
	}
}
