package h

import (
	sdk "github.com/cosmos/cosmos-sdk/types"

	service "github.com/irismod/service"
	"github.com/irismod/service/types"

	"vh/vf"
)

// sceneNewBatch: context X has a pending new-batch entry at the current height; EndBlocker runs.
// Oracle: the eligible set, prices and the issue/skip/pause decision recomputed from the pre-state.
func sceneNewBatch(o ReqOpts) {
	o.NewBatch = true
	s := NewReqScene(o)
	k, ctx, id, pre := s.K, s.Ctx, s.ID, s.Pre
	bc, timeout, th := pre.BatchCounter, pre.Timeout, pre.ResponseThreshold
	capAmt := pre.ServiceFeeCap.AmountOf(Denom)

	panicked := vf.Try(func() { service.EndBlocker(ctx, k) })
	chk("C20", !panicked, "endblock-no-panic")
	vf.Assume(!panicked)

	total := sdk.ZeroInt()
	cnt := 0
	elig := make([]bool, s.N)
	fee := make([]sdk.Int, s.N)
	for i := 0; i < s.N; i++ {
		fee[i] = sdk.ZeroInt()
		if s.Binds[i].Present {
			fee[i] = RefPrice(s.Binds[i].Pricing, s.Now, s.Vol0[i])
			if s.Binds[i].Available && s.Binds[i].QoS <= uint64(timeout) && fee[i].LTE(capAmt) {
				elig[i] = true
				cnt++
				total = total.Add(fee[i])
			}
		}
	}
	post, found := k.GetRequestContext(ctx, id)
	chk("C09 C16", found, "ctx-kept")
	vf.Assume(found)
	chk("C11 C10", !k.HasNewRequestBatch(ctx, id), "newbatch-entry-consumed")
	nreq, nresp, nact := countRecords(k, ctx, id, bc+1)
	balC1 := vf.Balance(s.Consumer)
	esc1 := vf.ModuleBalance(types.RequestAccName)
	running := pre.State == types.RUNNING
	enough := cnt > 0 && cnt >= int(th)
	issue := running && enough && (pre.SuperMode || s.BalC0.GTE(total))
	chk("C09", immutableCtx(pre, post), "ctx-immutable-fields")
	chk("C05", vf.ModuleBalance(types.DepositAccName).Equal(s.DepAcc0), "deposits-untouched")
	if issue {
		vf.Reach("issued")
		chk("C06 C12 C16", nreq == cnt && nact == cnt && nresp == 0, "requests-exactly-eligible")
		idx := 0
		for i := 0; i < s.N; i++ {
			if !elig[i] {
				continue
			}
			rid := types.GenerateRequestID(id, bc+1, s.H, int16(idx))
			req, ok := k.GetCompactRequest(ctx, rid)
			chk("C06 C18", ok, "request-for-eligible")
			vf.Assume(ok)
			chk("C06 C18", req.Provider.Equals(s.Provs[i]), "request-provider")
			chk("C06 C08 C16", k.IsRequestActive(ctx, rid), "request-active")
			chk("C08 C11", req.ExpirationHeight == s.H+timeout && req.RequestHeight == s.H, "request-expiry-fixed-at-issue")
			chk("C16 C18", vf.And(req.RequestContextBatchCounter == bc+1, string(req.RequestContextId) == string(id)), "request-belongs-to-batch")
			if pre.SuperMode {
				chk("C07 C02", req.ServiceFee.Empty(), "super-no-fee")
			} else {
				chk("C07 C01", req.ServiceFee.AmountOf(Denom).Equal(fee[i]), "fee-is-price")
				chk("C06", req.ServiceFee.AmountOf(Denom).LTE(capAmt), "fee-within-cap")
				chk("C07", req.ServiceFee.AmountOf(Denom).LTE(sdk.MaxInt(s.Binds[i].Pricing.Price.AmountOf(Denom), sdk.OneInt())), "fee-at-most-base-price")
			}
			idx++
		}
		if pre.SuperMode {
			chk("C07 C02 C05", balC1.Equal(s.BalC0), "super-no-debit")
			chk("C01", esc1.Equal(s.Esc0), "super-escrow-unchanged")
		} else {
			chk("C02 C07 C01", s.BalC0.Sub(balC1).Equal(total), "debit-is-sum-of-fees")
			chk("C01", esc1.Sub(s.Esc0).Equal(total), "escrow-gains-sum-of-fees")
		}
		chk("C09 C10", post.BatchCounter == bc+1 && post.BatchState == types.BATCHRUNNING && post.State == types.RUNNING, "batch-started")
		chk("C12", int(post.BatchRequestCount) == cnt && post.BatchResponseCount == 0 && post.BatchResponseThreshold == th, "batch-counts")
		chk("C11", k.HasRequestBatchExpiration(ctx, id), "expiry-queued")
		chk("C11 C08", expiryAt(k, ctx, id, s.H+timeout), "expiry-at-issue-plus-timeout")
		chk("C12", len(s.Log.Resp) == 0 && len(s.Log.State) == 0, "no-callback-at-issue")
	} else {
		chk("C06 C16", nreq == 0 && nact == 0, "no-requests")
		chk("C06 C02 C05", balC1.Equal(s.BalC0), "no-debit")
		chk("C01", esc1.Equal(s.Esc0), "escrow-unchanged")
		if !running {
			vf.Reach("not-running")
			chk("C09", post.State == pre.State && post.BatchCounter == bc && post.BatchState == pre.BatchState, "untouched-when-not-running")
			chk("C11", !k.HasRequestBatchExpiration(ctx, id), "no-expiry-when-not-running")
			chk("C12", len(s.Log.Resp) == 0 && len(s.Log.State) == 0, "no-callback-when-not-running")
		} else if enough {
			vf.Reach("paused-for-funds")
			chk("C06 C09", post.State == types.PAUSED && post.BatchCounter == bc && post.BatchState == types.BATCHCOMPLETED, "paused-for-funds")
			chk("C11", !k.HasRequestBatchExpiration(ctx, id), "no-expiry-when-paused")
			if pre.ModuleName != "" {
				chk("C12", len(s.Log.State) == 1 && len(s.Log.Resp) == 0, "state-callback-on-pause")
			}
		} else {
			vf.Reach("skipped")
			chk("C06 C09 C10", post.State == types.RUNNING && post.BatchCounter == bc+1 && post.BatchState == types.BATCHRUNNING, "skipped-counts-as-batch")
			chk("C12", post.BatchRequestCount == 0 && post.BatchResponseCount == 0, "skipped-counts-zero")
			chk("C11", expiryAt(k, ctx, id, s.H+timeout), "skip-expiry-queued")
		}
	}
	// C10: the batch counter never passes the largest total ever in force
	chk("C10", vf.Implies(vf.And(pre.Repeated, pre.RepeatedTotal > 0), int64(post.BatchCounter) <= s.MaxTotal), "counter-within-total")
	chk("C10", vf.Implies(!pre.Repeated, post.BatchCounter <= 1), "one-shot-single-batch")
	// bindings are not touched by a batch start
	for i := 0; i < s.N; i++ {
		if s.Binds[i].Present {
			b, _ := k.GetServiceBinding(ctx, Svc, s.Provs[i])
			chk("C04 C03 C14", b.Deposit.AmountOf(Denom).Equal(s.Binds[i].Deposit) && b.Available == s.Binds[i].Available, "binding-untouched")
		}
	}
}

func immutableCtx(pre, post types.RequestContext) bool {
	return vf.And(vf.And(post.ServiceName == pre.ServiceName, post.Consumer.Equals(pre.Consumer)),
		vf.And(vf.And(post.Input == pre.Input, post.SuperMode == pre.SuperMode), vf.And(post.Repeated == pre.Repeated, post.ModuleName == pre.ModuleName)))
}

// expiryAt: the context has an expiry entry, queued at exactly height h
func expiryAt(k keeperT, ctx sdk.Context, id []byte, h int64) bool {
	store := vf.Store(ctx)
	return vf.And(k.HasRequestBatchExpiration(ctx, id), store.Has(types.GetExpiredRequestBatchKey(id, h)))
}

func newBatchAt(k keeperT, ctx sdk.Context, id []byte, h int64) bool {
	store := vf.Store(ctx)
	return vf.And(k.HasNewRequestBatch(ctx, id), store.Has(types.GetNewRequestBatchKey(id, h)))
}
