package h

import (
	sdk "github.com/cosmos/cosmos-sdk/types"

	service "github.com/irismod/service"
	"github.com/irismod/service/types"

	"vh/vf"
)

func sameCoins(a, b sdk.Coins) bool {
	return vf.And(len(a) == len(b), a.AmountOf(Denom).Equal(b.AmountOf(Denom)))
}

func sameAddrs(a, b []sdk.AccAddress) bool {
	if len(a) != len(b) {
		return false
	}
	r := true
	for i := range a {
		r = vf.And(r, a[i].Equals(b[i]))
	}
	return r
}

func sameContext(a, b types.RequestContext) bool {
	return vf.All(a.ServiceName == b.ServiceName, sameAddrs(a.Providers, b.Providers), a.Consumer.Equals(b.Consumer), a.Input == b.Input,
		sameCoins(a.ServiceFeeCap, b.ServiceFeeCap), a.ModuleName == b.ModuleName, a.Timeout == b.Timeout, a.SuperMode == b.SuperMode,
		a.Repeated == b.Repeated, a.RepeatedFrequency == b.RepeatedFrequency, a.RepeatedTotal == b.RepeatedTotal, a.BatchCounter == b.BatchCounter,
		a.BatchRequestCount == b.BatchRequestCount, a.BatchResponseCount == b.BatchResponseCount, a.BatchResponseThreshold == b.BatchResponseThreshold,
		a.ResponseThreshold == b.ResponseThreshold, a.BatchState == b.BatchState, a.State == b.State)
}

func sameBinding(a, b types.ServiceBinding) bool {
	return vf.All(a.ServiceName == b.ServiceName, a.Provider.Equals(b.Provider), sameCoins(a.Deposit, b.Deposit), a.Pricing == b.Pricing,
		a.QoS == b.QoS, a.Options == b.Options, a.Available == b.Available, a.DisabledTime.Equal(b.DisabledTime), a.Owner.Equals(b.Owner))
}

func sameParams(a, b types.Params) bool {
	return vf.All(a.MaxRequestTimeout == b.MaxRequestTimeout, a.MinDepositMultiple == b.MinDepositMultiple, sameCoins(a.MinDeposit, b.MinDeposit),
		a.ServiceFeeTax.Equal(b.ServiceFeeTax), a.SlashFraction.Equal(b.SlashFraction), a.ComplaintRetrospect == b.ComplaintRetrospect,
		a.ArbitrationTimeLimit == b.ArbitrationTimeLimit, a.TxSizeLimit == b.TxSizeLimit, a.BaseDenom == b.BaseDenom)
}

// sceneGenesis: zero-height preparation, export, validation, import into a fresh chain, export again.
func sceneGenesis(o ReqOpts) {
	o.Batch, o.AllBound, o.Earned, o.OneOutput, o.ZeroDep = true, true, true, true, 1 // every parameter stays free (nothing is slashed here)
	s := NewReqScene(o)
	k, ctx, id := s.K, s.Ctx, s.ID
	// provider 0 also serves a second service (two bindings of one provider, one owner)
	Define(k, ctx, Svc+"x")
	bx := Binding(k, ctx, "bx", Svc+"x", s.Provs[0], s.Owner, 0, 0, false)
	depAcc0 := s.DepAcc0.Add(bx.Deposit)
	vf.SetModuleBalance(types.DepositAccName, depAcc0)
	supply0 := s.Supply0.Add(bx.Deposit)
	vf.SetSupply(supply0)
	balOwner := vf.Amount("balOwner")
	vf.SetBalance(s.Owner, balOwner)
	hasWA := vf.Bool("hasWithdrawAddr")
	wa := vf.Addr("withdrawAddr", 20)
	if hasWA {
		k.SetWithdrawAddress(ctx, s.Owner, wa)
	}
	// providers' own balances
	balP := make([]sdk.Int, s.N)
	for i := 0; i < s.N; i++ {
		balP[i] = vf.Amount("balProv" + digit(i))
		vf.SetBalance(s.Provs[i], balP[i])
	}
	distinct(append(append([]sdk.AccAddress{}, s.Provs...), s.Consumer, s.Owner)...)
	// a second context of another consumer with one pending, fee-carrying request to another provider
	// (its position in the pending-request index relative to the first context's requests is arbitrary)
	c2, p2 := vf.Addr("consumer2", 20), vf.Addr("provider2", 20)
	distinct(append(append([]sdk.AccAddress{}, s.Provs...), s.Consumer, s.Owner, c2, p2)...)
	if vf.Bool("sameProvider") {
		// the second context's request goes to provider 0 as well: the two pending requests are then ordered by
		// expiration height and request id in the pending-request index
		p2 = s.Provs[0]
	}
	id2 := vf.Bytes("ctx2", 40)
	vf.Assume(string(id2) != string(id))
	fee2 := vf.Amount("fee2")
	vf.Assume(fee2.IsPositive())
	rc2pre := types.NewRequestContext(Svc, []sdk.AccAddress{p2}, c2, InputOK, coins(fee2), 1, false, true, 5, -1, 1, 1, 0, 1, types.BATCHRUNNING, types.RUNNING, 1, "")
	k.SetRequestContext(ctx, id2, rc2pre)
	rid2 := types.GenerateRequestID(id2, 1, s.H-1, 0)
	vf.Assume(s.H >= 2)
	k.SetCompactRequest(ctx, rid2, types.NewCompactRequest(id2, 1, p2, coins(fee2), s.H-1, s.H+1))
	k.AddActiveRequest(ctx, Svc, p2, s.H+1, rid2)
	k.AddRequestBatchExpiration(ctx, id2, s.H+1)
	balC2 := vf.Amount("balConsumer2")
	vf.SetBalance(c2, balC2)
	esc0 := s.Esc0.Add(fee2)
	vf.SetModuleBalance(types.RequestAccName, esc0)

	panicked := vf.Try(func() { service.PrepForZeroHeightGenesis(ctx, k) })
	chk("C19 C20", !panicked, "prep-no-panic")
	vf.Assume(!panicked)

	refund := sdk.ZeroInt()
	for j := 0; j < s.M; j++ {
		if s.Active[j] {
			refund = refund.Add(s.Fee[j])
		}
	}
	earned := sdk.ZeroInt()
	for i := 0; i < s.N; i++ {
		earned = earned.Add(s.Earned0[i])
		chk("C19 C18 C13", vf.Balance(s.Provs[i]).Sub(balP[i]).Equal(s.Earned0[i]), "earnings-returned-to-their-provider")
	}
	// deposits are not part of what a zero-height export hands back: they stay in custody, recorded as before
	chk("C03 C19", vf.All(vf.ModuleBalance(types.DepositAccName).Equal(depAcc0), vf.Balance(s.Owner).Equal(balOwner), vf.Supply().Equal(supply0)), "zero-height-preparation-leaves-deposits-in-custody")
	for i := 0; i < s.N; i++ {
		b, _ := k.GetServiceBinding(ctx, Svc, s.Provs[i])
		chk("C03 C04 C14 C19", vf.All(b.Deposit.AmountOf(Denom).Equal(s.Binds[i].Deposit), b.Available == s.Binds[i].Available, b.DisabledTime.Equal(s.Binds[i].DisabledTime)), "zero-height-preparation-leaves-bindings-alone")
	}
	chk("C19 C02", vf.Balance(s.Consumer).Sub(s.BalC0).Equal(refund), "pending-fees-returned-to-consumer")
	chk("C19 C02", vf.Balance(c2).Sub(balC2).Equal(fee2), "pending-fee-of-every-context-returned")
	chk("C19 C01", esc0.Sub(vf.ModuleBalance(types.RequestAccName)).Equal(refund.Add(earned).Add(fee2)), "escrow-emptied-of-all-obligations")
	rc, found := k.GetRequestContext(ctx, id)
	chk("C19", vf.All(found, rc.State == types.PAUSED, rc.BatchState == types.BATCHCOMPLETED, rc.BatchRequestCount == 0, rc.BatchResponseCount == 0), "contexts-paused-with-no-batch-in-flight")

	// what a context is (service, consumer, input, modes, owning module, providers, counter) is not touched by the reset
	y0, fy0 := k.GetRequestContext(ctx, id2)
	chk("C09 C19 C10", vf.All(found, fy0, immutableCtx(s.Pre, rc), immutableCtx(rc2pre, y0), sameAddrs(rc.Providers, s.Pre.Providers), sameAddrs(y0.Providers, rc2pre.Providers),
		rc.BatchCounter == s.Pre.BatchCounter, y0.BatchCounter == rc2pre.BatchCounter, sameCoins(rc.ServiceFeeCap, s.Pre.ServiceFeeCap), sameCoins(y0.ServiceFeeCap, rc2pre.ServiceFeeCap)), "zero-height-preparation-keeps-what-a-context-is")

	gs := service.ExportGenesis(ctx, k)
	chk("C19", types.ValidateGenesis(*gs) == nil, "exported-genesis-validates")
	chk("C19 C17 C04 C02 C03", sameParams(gs.Params, vf.Params(ctx)), "export-carries-the-stored-parameters")
	chk("C19 C03 C15", vf.All(len(gs.Definitions) == 2, len(gs.Bindings) == s.N+1, len(gs.RequestContexts) == 2), "export-lists-all-records")
	nWA := 0
	if hasWA {
		nWA = 1
	}
	chk("C19 C13", len(gs.WithdrawAddresses) == nWA, "export-lists-withdraw-addresses")

	// ---- import into a fresh chain and export again
	k2, ctx2 := vf.Env()
	ctx2 = ctx2.WithBlockHeight(1)
	ipanic := vf.Try(func() { service.InitGenesis(ctx2, k2, *gs) })
	chk("C19 C20", !ipanic, "import-no-panic")
	vf.Assume(!ipanic)
	gs2 := service.ExportGenesis(ctx2, k2)
	chk("C19", sameParams(gs.Params, gs2.Params), "params-survive")
	chk("C19", vf.All(len(gs2.Definitions) == 2, len(gs2.Bindings) == s.N+1, len(gs2.RequestContexts) == 2, len(gs2.WithdrawAddresses) == nWA), "second-export-same-sizes")
	if len(gs2.Definitions) == 2 && len(gs.Definitions) == 2 {
		for i := 0; i < 2; i++ {
			a, b := gs.Definitions[i], gs2.Definitions[i]
			chk("C19", vf.All(a.Name == b.Name, a.Schemas == b.Schemas, a.Author.Equals(b.Author), a.Description == b.Description), "definitions-survive")
		}
	}
	if len(gs2.Bindings) == s.N+1 && len(gs.Bindings) == s.N+1 {
		for i := 0; i <= s.N; i++ {
			chk("C19", sameBinding(gs.Bindings[i], gs2.Bindings[i]), "bindings-survive")
		}
	}
	rc2, found2 := k2.GetRequestContext(ctx2, id)
	chk("C19", vf.And(found2, sameContext(rc, rc2)), "contexts-survive")
	y1, fy1 := k.GetRequestContext(ctx, id2)
	y2, fy2 := k2.GetRequestContext(ctx2, id2)
	chk("C19", vf.All(fy1, fy2, y1.State == types.PAUSED, sameContext(y1, y2)), "second-context-survives")
	if hasWA {
		chk("C19 C13", k2.GetWithdrawAddress(ctx2, s.Owner).Equals(wa), "withdraw-addresses-survive")
	}
	// rebuilt on import: parsed pricing and ownership indexes
	px := k2.GetPricing(ctx2, Svc+"x", s.Provs[0])
	chk("C19 C15 C07", px.Price.AmountOf(Denom).Equal(bx.Pricing.Price.AmountOf(Denom)), "pricing-of-a-provider's-second-binding-rebuilt-on-import")
	chk("C19 C15", vf.Store(ctx2).Has(types.GetOwnerServiceBindingKey(s.Owner, Svc+"x", s.Provs[0])), "owner-index-of-second-binding-rebuilt-on-import")
	for i := 0; i < s.N; i++ {
		p := k2.GetPricing(ctx2, Svc, s.Provs[i])
		chk("C19 C15 C14 C07 C06", p.Price.AmountOf(Denom).Equal(s.Binds[i].Pricing.Price.AmountOf(Denom)), "pricing-rebuilt-on-import")
		own, ok := k2.GetOwner(ctx2, s.Provs[i])
		chk("C19 C15 C05", vf.And(ok, own.Equals(s.Owner)), "ownership-rebuilt-on-import")
		chk("C19 C15 C01 C13 C18", vf.All(vf.Store(ctx2).Has(types.GetOwnerServiceBindingKey(s.Owner, Svc, s.Provs[i])), vf.Store(ctx2).Has(types.GetOwnerProviderKey(s.Owner, s.Provs[i])), !vf.Store(ctx2).Has(types.GetOwnerProviderKey(s.Provs[i], s.Owner))), "owner-indexes-rebuilt-on-import")
	}
}

// enum JSON forms: UnmarshalJSON(MarshalJSON(x)) == x for every defined state
func sceneEnumJSON() {
	st := vf.Uint32("state")
	vf.Assume(st <= 2)
	s := types.RequestContextState(st)
	bz, err := s.MarshalJSON()
	chk("C19", err == nil, "state-marshals")
	var back types.RequestContextState = 77
	err = back.UnmarshalJSON(bz)
	chk("C19", vf.And(err == nil, back == s), "state-json-round-trip")
	bs := vf.Uint32("batchState")
	vf.Assume(bs <= 1)
	b := types.RequestContextBatchState(bs)
	bz, err = b.MarshalJSON()
	chk("C19", err == nil, "batch-state-marshals")
	var bback types.RequestContextBatchState = 77
	err = bback.UnmarshalJSON(bz)
	chk("C19", vf.And(err == nil, bback == b), "batch-state-json-round-trip")
	// distinct states have distinct JSON forms
	st2 := vf.Uint32("state2")
	vf.Assume(st2 <= 2)
	bz2, _ := types.RequestContextState(st2).MarshalJSON()
	bz1, _ := s.MarshalJSON()
	chk("C19", vf.Implies(string(bz1) == string(bz2), st == st2), "state-json-injective")
}

// sceneEnumProtoJSON: the application reads and writes the genesis file with the proto JSON codec (gogo jsonpb),
// reflective code the engine cannot execute. Its treatment of an enum field is narrow, though: the field is written
// with the value's String() and read back through the value map registered for the enum (or as a number). That
// contract is stated here in Go over the module's real String() methods and registered maps; natively
// vf.ProtoJSONRoundTrip runs the real codec on a genesis state holding the context, and the run is an encoding
// mismatch if the two disagree.
func sceneEnumProtoJSON() {
	vf.Env()
	st, bs := vf.Uint32("state"), vf.Uint32("batchState")
	vf.Assume(vf.And(st <= 2, bs <= 1))
	s, b := types.RequestContextState(st), types.RequestContextBatchState(bs)
	v1, ok1 := types.RequestContextState_value[s.String()]
	v2, ok2 := types.RequestContextBatchState_value[b.String()]
	model := ok1 && v1 == int32(s) && ok2 && v2 == int32(b)
	rc := types.NewRequestContext(Svc, []sdk.AccAddress{sdk.AccAddress("provider____________")}, sdk.AccAddress("consumer____________"), InputOK,
		coins(sdk.OneInt()), 1, false, true, 5, -1, 1, 1, 0, 1, b, s, 1, "")
	real := vf.ProtoJSONRoundTrip(rc, model)
	vf.Assume(real == model)
	chk("C19", real, "exported-context-can-be-read-back-by-the-application's-json-codec")
}

// sceneGenesisWithdrawAddrs: the withdrawal addresses of several owners through export and import (kept apart from
// sceneGenesis: every further record under a walked prefix multiplies that scene's paths). Owner 1's record may be
// the owner itself (an address set back to the default), owner 2's is another account; either may come first.
func sceneGenesisWithdrawAddrs() {
	k, ctx := vf.Env()
	ctx, _, _ = Block(ctx)
	o1, o2 := vf.Addr("owner1", 20), vf.Addr("owner2", 20)
	distinct(o1, o2)
	wa1, wa2 := vf.Addr("withdrawAddr1", 20), vf.Addr("withdrawAddr2", 20)
	vf.Assume(!wa2.Equals(o2))
	k.SetWithdrawAddress(ctx, o1, wa1)
	k.SetWithdrawAddress(ctx, o2, wa2)
	gs := service.ExportGenesis(ctx, k)
	chk("C19 C13", len(gs.WithdrawAddresses) == 2, "export-lists-every-withdraw-address")
	chk("C19", types.ValidateGenesis(*gs) == nil, "exported-genesis-validates")
	k2, ctx2 := vf.Env()
	ipanic := vf.Try(func() { service.InitGenesis(ctx2, k2, *gs) })
	chk("C19 C20", !ipanic, "import-no-panic")
	vf.Assume(!ipanic)
	chk("C19 C13", vf.And(k2.GetWithdrawAddress(ctx2, o1).Equals(wa1), k2.GetWithdrawAddress(ctx2, o2).Equals(wa2)), "every-owner's-withdraw-address-survives")
}
