package h

import (
	sdk "github.com/cosmos/cosmos-sdk/types"

	service "github.com/irismod/service"
	"github.com/irismod/service/types"

	"vh/vf"
)

type dump struct {
	keys, vals [][]byte
	bal        []sdk.Int
}

func dumpState(s *ReqScene) dump {
	var d dump
	it := sdk.KVStorePrefixIterator(vf.Store(s.Ctx), nil)
	for ; it.Valid(); it.Next() {
		d.keys = append(d.keys, it.Key())
		d.vals = append(d.vals, it.Value())
	}
	it.Close()
	d.bal = []sdk.Int{vf.Balance(s.Consumer), vf.ModuleBalance(types.RequestAccName), vf.ModuleBalance(types.DepositAccName), vf.ModuleBalance("fee_collector"), vf.Supply()}
	return d
}

// sceneDeterminism: the same end-of-block runs twice from the same state in two separate keeper
// instances (independent map iteration orders); module store and balances must be identical.
func sceneDeterminism(o ReqOpts, expiry bool) {
	build := func() dump {
		var s *ReqScene
		if expiry {
			oo := o
			oo.Batch, oo.AtExpiry, oo.AllBound, oo.ZeroDep = true, true, true, 9
			s = NewReqScene(oo)
		} else {
			oo := o
			oo.NewBatch = true
			s = NewReqScene(oo)
		}
		service.EndBlocker(s.Ctx, s.K)
		return dumpState(s)
	}
	d1 := build()
	d2 := build()
	chk("C20", len(d1.keys) == len(d2.keys), "same-number-of-records")
	if len(d1.keys) == len(d2.keys) {
		same := true
		for i := range d1.keys {
			same = vf.All(same, string(d1.keys[i]) == string(d2.keys[i]), vf.SameBytes(d1.vals[i], d2.vals[i]))
		}
		chk("C20", same, "module-store-identical")
	}
	sameBal := true
	for i := range d1.bal {
		sameBal = vf.And(sameBal, d1.bal[i].Equal(d2.bal[i]))
	}
	chk("C20", sameBal, "balances-identical")
}

// sceneDeterminismTwo: two contexts of one consumer are due for a batch in the same block and the
// consumer can pay only some of them, so the outcome depends on the order in which they are processed;
// that order must be the store's key order in both runs.
func sceneDeterminismTwo() {
	build := func() dump {
		k, ctx := vf.Env()
		ctx, H, _ := Block(ctx)
		Define(k, ctx, Svc)
		owner, prov, consumer := vf.Addr("owner", 20), vf.Addr("prov", 20), vf.Addr("consumer", 20)
		Binding(k, ctx, "b", Svc, prov, owner, 0, 0, false)
		id1, id2 := vf.Bytes("ctx1", 40), vf.Bytes("ctx2", 40)
		vf.Assume(string(id1) != string(id2))
		capAmt := vf.Amount("cap")
		vf.Assume(capAmt.IsPositive())
		for _, id := range [][]byte{id1, id2} {
			rc := types.NewRequestContext(Svc, []sdk.AccAddress{prov}, consumer, InputOK, coins(capAmt), 1, false, true, 5, -1,
				0, 0, 0, 1, types.BATCHCOMPLETED, types.RUNNING, 1, "")
			k.SetRequestContext(ctx, id, rc)
			k.AddNewRequestBatch(ctx, id, H)
		}
		vf.SetBalance(consumer, vf.Amount("balConsumer"))
		vf.SetModuleBalance(types.RequestAccName, vf.Amount("escrowRest"))
		service.EndBlocker(ctx, k)
		s := &ReqScene{K: k, Ctx: ctx, Consumer: consumer}
		return dumpState(s)
	}
	d1 := build()
	d2 := build()
	chk("C20", len(d1.keys) == len(d2.keys), "same-number-of-records")
	if len(d1.keys) == len(d2.keys) {
		same := true
		for i := range d1.keys {
			same = vf.All(same, string(d1.keys[i]) == string(d2.keys[i]), vf.SameBytes(d1.vals[i], d2.vals[i]))
		}
		chk("C20", same, "module-store-identical")
	}
	sameBal := true
	for i := range d1.bal {
		sameBal = vf.And(sameBal, d1.bal[i].Equal(d2.bal[i]))
	}
	chk("C20", sameBal, "balances-identical")
}

// sceneDeterminismGenesis: a genesis state as a hand-written file may hold it, accepted by ValidateGenesis, is
// imported twice in two separate keeper instances. InitGenesis walks the two maps of the genesis state (request
// contexts by hex id, withdrawal addresses by bech32 owner) in Go's map order, which differs from process to
// process; the imported store must not depend on it. Keys: two different ids / owners (control), or two spellings
// (upper- and lower-case) of one id or of one owner with different records behind them.
func sceneDeterminismGenesis() {
	idLower := "abababababababababababababababababababababababababababababababababababababababab"
	idUpper := "ABABABABABABABABABABABABABABABABABABABABABABABABABABABABABABABABABABABABABABABAB"
	idOther := "CDCDCDCDCDCDCDCDCDCDCDCDCDCDCDCDCDCDCDCDCDCDCDCDCDCDCDCDCDCDCDCDCDCDCDCDCDCDCDCD"
	owner := sdk.AccAddress("owner_______________")
	ownerLower := owner.String()
	ownerUpper := upper(ownerLower)
	other := sdk.AccAddress("other_owner_________").String()
	prov, consumer := sdk.AccAddress("provider____________"), sdk.AccAddress("consumer____________")
	t1, t2 := vf.Int64("timeout1"), vf.Int64("timeout2")
	vf.Assume(vf.All(t1 >= 1, t1 <= 100, t2 >= 1, t2 <= 100, t1 != t2))
	mk := func(t int64) *types.RequestContext {
		rc := types.NewRequestContext(Svc, []sdk.AccAddress{prov}, consumer, InputOK, coins(sdk.OneInt()), t, false, true, 100, -1,
			0, 0, 0, 0, types.BATCHCOMPLETED, types.PAUSED, 0, "")
		return &rc
	}
	gs := types.GenesisState{Params: types.DefaultParams(),
		Definitions: []types.ServiceDefinition{types.NewServiceDefinition(Svc, "", nil, sdk.AccAddress("author______________"), "", Schemas)}}
	switch vf.Choice("keys", 4) {
	case 0:
		gs.RequestContexts = map[string]*types.RequestContext{idUpper: mk(t1), idOther: mk(t2)}
	case 1:
		gs.RequestContexts = map[string]*types.RequestContext{idUpper: mk(t1), idLower: mk(t2)}
	case 2:
		gs.WithdrawAddresses = map[string][]byte{ownerLower: sdk.AccAddress("withdraw_address_one"), other: sdk.AccAddress("withdraw_address_two")}
	case 3:
		gs.WithdrawAddresses = map[string][]byte{ownerLower: sdk.AccAddress("withdraw_address_one"), ownerUpper: sdk.AccAddress("withdraw_address_two")}
	}
	vf.Assume(types.ValidateGenesis(gs) == nil)
	vf.Reach("genesis-accepted")
	build := func() dump {
		k, ctx := vf.Env()
		service.InitGenesis(ctx, k, gs)
		return dumpState(&ReqScene{K: k, Ctx: ctx, Consumer: consumer})
	}
	d1 := build()
	d2 := build()
	chk("C20 C19", len(d1.keys) == len(d2.keys), "import-same-number-of-records")
	if len(d1.keys) == len(d2.keys) {
		same := true
		for i := range d1.keys {
			same = vf.All(same, string(d1.keys[i]) == string(d2.keys[i]), vf.SameBytes(d1.vals[i], d2.vals[i]))
		}
		chk("C20 C19", same, "imported-store-independent-of-map-order")
	}
}

func upper(s string) string {
	b := []byte(s)
	for i, c := range b {
		if c >= 'a' && c <= 'z' {
			b[i] = c - 32
		}
	}
	return string(b)
}

func C20_DeterminismGenesis() { focus = "C20"; sceneDeterminismGenesis() }
func C19_DeterminismGenesis() { focus = "C19"; sceneDeterminismGenesis() }
