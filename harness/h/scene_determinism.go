package h

import (
	sdk "github.com/cosmos/cosmos-sdk/types"

	service "github.com/irismod/service"
	"github.com/irismod/service/types"

	"vh/vf"
)

type dump struct {
	keys, vals [][]byte
	bal        []sdk.Int
}

func dumpState(s *ReqScene) dump {
	var d dump
	it := sdk.KVStorePrefixIterator(vf.Store(s.Ctx), nil)
	for ; it.Valid(); it.Next() {
		d.keys = append(d.keys, it.Key())
		d.vals = append(d.vals, it.Value())
	}
	it.Close()
	d.bal = []sdk.Int{vf.Balance(s.Consumer), vf.ModuleBalance(types.RequestAccName), vf.ModuleBalance(types.DepositAccName), vf.ModuleBalance("fee_collector"), vf.Supply()}
	return d
}

// sceneDeterminism: the same end-of-block runs twice from the same state in two separate keeper
// instances (independent map iteration orders); module store and balances must be identical.
func sceneDeterminism(o ReqOpts, expiry bool) {
	build := func() dump {
		var s *ReqScene
		if expiry {
			oo := o
			oo.Batch, oo.AtExpiry, oo.AllBound, oo.ZeroDep = true, true, true, 9
			s = NewReqScene(oo)
		} else {
			oo := o
			oo.NewBatch = true
			s = NewReqScene(oo)
		}
		service.EndBlocker(s.Ctx, s.K)
		return dumpState(s)
	}
	d1 := build()
	d2 := build()
	chk("C20", len(d1.keys) == len(d2.keys), "same-number-of-records")
	if len(d1.keys) == len(d2.keys) {
		same := true
		for i := range d1.keys {
			same = vf.All(same, string(d1.keys[i]) == string(d2.keys[i]), vf.SameBytes(d1.vals[i], d2.vals[i]))
		}
		chk("C20", same, "module-store-identical")
	}
	sameBal := true
	for i := range d1.bal {
		sameBal = vf.And(sameBal, d1.bal[i].Equal(d2.bal[i]))
	}
	chk("C20", sameBal, "balances-identical")
}

// sceneDeterminismTwo: two contexts of one consumer are due for a batch in the same block and the
// consumer can pay only some of them, so the outcome depends on the order in which they are processed;
// that order must be the store's key order in both runs.
func sceneDeterminismTwo() {
	build := func() dump {
		k, ctx := vf.Env()
		ctx, H, _ := Block(ctx)
		Define(k, ctx, Svc)
		owner, prov, consumer := vf.Addr("owner", 20), vf.Addr("prov", 20), vf.Addr("consumer", 20)
		Binding(k, ctx, "b", Svc, prov, owner, 0, 0, false)
		id1, id2 := vf.Bytes("ctx1", 40), vf.Bytes("ctx2", 40)
		vf.Assume(string(id1) != string(id2))
		capAmt := vf.Amount("cap")
		vf.Assume(capAmt.IsPositive())
		for _, id := range [][]byte{id1, id2} {
			rc := types.NewRequestContext(Svc, []sdk.AccAddress{prov}, consumer, InputOK, coins(capAmt), 1, false, true, 5, -1,
				0, 0, 0, 1, types.BATCHCOMPLETED, types.RUNNING, 1, "")
			k.SetRequestContext(ctx, id, rc)
			k.AddNewRequestBatch(ctx, id, H)
		}
		vf.SetBalance(consumer, vf.Amount("balConsumer"))
		vf.SetModuleBalance(types.RequestAccName, vf.Amount("escrowRest"))
		service.EndBlocker(ctx, k)
		s := &ReqScene{K: k, Ctx: ctx, Consumer: consumer}
		return dumpState(s)
	}
	d1 := build()
	d2 := build()
	chk("C20", len(d1.keys) == len(d2.keys), "same-number-of-records")
	if len(d1.keys) == len(d2.keys) {
		same := true
		for i := range d1.keys {
			same = vf.All(same, string(d1.keys[i]) == string(d2.keys[i]), vf.SameBytes(d1.vals[i], d2.vals[i]))
		}
		chk("C20", same, "module-store-identical")
	}
	sameBal := true
	for i := range d1.bal {
		sameBal = vf.And(sameBal, d1.bal[i].Equal(d2.bal[i]))
	}
	chk("C20", sameBal, "balances-identical")
}
