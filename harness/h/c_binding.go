package h

var bmQuick = BindOpts{NT: 0, NV: 0}

func C03_Bind()    { focus = "C03"; sceneBindingMsg(opBind, bmQuick) }
func C03_Update()  { focus = "C03"; sceneBindingMsg(opUpdBinding, bmQuick) }
func C03_Enable()  { focus = "C03"; sceneBindingMsg(opEnable, bmQuick) }
func C03_Disable() { focus = "C03"; sceneBindingMsg(opDisable, bmQuick) }
func C03_Refund()  { focus = "C03"; sceneBindingMsg(opRefund, bmQuick) }

func C14_Bind()    { focus = "C14"; sceneBindingMsg(opBind, bmQuick) }
func C14_Update()  { focus = "C14"; sceneBindingMsg(opUpdBinding, bmQuick) }
func C14_Enable()  { focus = "C14"; sceneBindingMsg(opEnable, bmQuick) }
func C14_Disable() { focus = "C14"; sceneBindingMsg(opDisable, bmQuick) }
func C14_Refund()  { focus = "C14"; sceneBindingMsg(opRefund, bmQuick) }

func C15_Bind()    { focus = "C15"; sceneBindingMsg(opBind, bmQuick) }
func C15_Update()  { focus = "C15"; sceneBindingMsg(opUpdBinding, bmQuick) }
func C15_Enable()  { focus = "C15"; sceneBindingMsg(opEnable, bmQuick) }
func C15_Disable() { focus = "C15"; sceneBindingMsg(opDisable, bmQuick) }
func C15_Refund()  { focus = "C15"; sceneBindingMsg(opRefund, bmQuick) }

func C05_Bind()          { focus = "C05"; sceneBindingMsg(opBind, bmQuick) }
func C05_UpdateBinding() { focus = "C05"; sceneBindingMsg(opUpdBinding, bmQuick) }
func C05_Enable()        { focus = "C05"; sceneBindingMsg(opEnable, bmQuick) }
func C05_Disable()       { focus = "C05"; sceneBindingMsg(opDisable, bmQuick) }
func C05_Refund()        { focus = "C05"; sceneBindingMsg(opRefund, bmQuick) }

func C20_Bind()          { focus = "C20"; sceneBindingMsg(opBind, bmQuick) }
func C20_UpdateBinding() { focus = "C20"; sceneBindingMsg(opUpdBinding, bmQuick) }
func C20_Enable()        { focus = "C20"; sceneBindingMsg(opEnable, bmQuick) }
func C20_Disable()       { focus = "C20"; sceneBindingMsg(opDisable, bmQuick) }
func C20_Refund()        { focus = "C20"; sceneBindingMsg(opRefund, bmQuick) }
