package h

import (
	"errors"

	sdk "github.com/cosmos/cosmos-sdk/types"

	service "github.com/irismod/service"
	"github.com/irismod/service/types"

	"vh/vf"
)

// ---------------------------------------------------------------- prices in another token
//
// The keeper takes the host application's token keeper (types.TokenKeeper) and, for a price that is not in the
// base denomination, asks the module service registered as "oracle" for the exchange rate
// (keeper/oracle_price.go). The repository's own application knows a single token (MockTokenKeeper) and
// registers no oracle, so none of this is reachable there; the scene stands for a host that has both (irishub):
// a token keeper with the base token and a second token "gold" (scale 0), and an oracle module service whose
// answer is one of a few concrete rates, an error, an answer the output schema refuses - or no oracle at all.

const Gold = "gold"

type twoTokens struct{}

func (twoTokens) GetToken(ctx sdk.Context, denom string) (types.TokenI, error) {
	if denom == Denom {
		return types.MockToken{MinUnit: Denom, Scale: 0}, nil
	}
	if denom == Gold {
		return types.MockToken{MinUnit: Gold, Scale: 0}, nil
	}
	return nil, errors.New("unknown token")
}

var rateTexts = []string{"1", "0.5", "2.5", "0.000000000000000001", "1000000", "0"}

const nRates = 6

// sceneExchange: context X (one provider, price in gold) has a pending new-batch entry at the current height;
// the end blocker runs. Oracle answers 0..5: a rate; 6: an error result; 7: an answer without a rate;
// 8: a rate with 19 decimals (the output schema admits it, sdk.NewDecFromStr does not); 9: no oracle registered.
func sceneExchange() { sceneExchangeP(0, 0) }

// sceneExchangeP: the same with nT time promotions and nV volume promotions on the gold price
func sceneExchangeP(nT, nV int) {
	s := NewReqScene(ReqOpts{MaxProv: 1, OnlyState: 0, AllBound: true, NewBatch: true, Exchange: true, NT: nT, NV: nV})
	k, ctx, id, pre := s.K, s.Ctx, s.ID, s.Pre
	bc, timeout := pre.BatchCounter, pre.Timeout
	capAmt := pre.ServiceFeeCap.AmountOf(Denom)
	answer := vf.Choice("oracle", nRates+4)
	if answer < nRates+3 {
		_ = k.RegisterModuleService(types.RegisterModuleName, &types.ModuleService{ServiceName: types.OraclePriceServiceName,
			Provider: types.OraclePriceServiceProvider,
			ReuquestService: func(ctx sdk.Context, input string) (string, string) {
				switch {
				case answer < nRates:
					return ResultOK, `{"header":{},"body":{"rate":"` + rateTexts[answer] + `"}}`
				case answer == nRates:
					return `{"code":500,"message":"no such pair"}`, ""
				case answer == nRates+2:
					return ResultOK, `{"header":{},"body":{"rate":"0.1234567890123456789"}}`
				}
				return ResultOK, `{"header":{},"body":{}}`
			}})
	}

	panicked := vf.Try(func() { service.EndBlocker(ctx, k) })
	chk("C20", !panicked, "endblock-no-panic")
	vf.Assume(!panicked)

	b := s.Binds[0]
	post, found := k.GetRequestContext(ctx, id)
	chk("C09 C16", found, "ctx-kept")
	vf.Assume(found)
	balC1 := vf.Balance(s.Consumer)
	esc1 := vf.ModuleBalance(types.RequestAccName)
	nreq, _, nact := countRecords(k, ctx, id, bc+1)
	chk("C09", immutableCtx(pre, post), "ctx-immutable-fields")

	if answer >= nRates {
		// no exchange rate: nothing can be issued or charged; the context is still running, so it must still
		// have its one pending event, and not in a block that has already ended
		vf.Reach("no-rate")
		chk("C06 C02 C01", vf.All(nreq == 0, nact == 0, balC1.Equal(s.BalC0), esc1.Equal(s.Esc0)), "no-rate-no-requests-no-charge")
		hasE, hasN := k.HasRequestBatchExpiration(ctx, id), k.HasNewRequestBatch(ctx, id)
		chk("C11", vf.Implies(post.State == types.RUNNING, hasE != hasN), "no-rate-running-context-has-one-pending-event")
		chk("C11", !vf.Store(ctx).Has(types.GetNewRequestBatchKey(id, s.H)), "no-rate-pending-start-not-left-in-the-ended-block")
		// (the properties do not say whether a batch without a rate is skipped or tried again later; either way the
		// counter moves by at most one, and if it moved this is a skipped batch with its expiry queued)
		moved := post.BatchCounter == bc+1
		chk("C10 C09 C06", vf.And(post.State == types.RUNNING, vf.Or(moved, post.BatchCounter == bc)), "no-rate-counter-moves-by-at-most-one")
		chk("C11 C10 C12", vf.Implies(moved, vf.And(post.BatchRequestCount == 0, expiryAt(k, ctx, id, s.H+timeout))), "no-rate-a-skipped-batch-has-its-expiry-queued")
		chk("C11", vf.And(queued(ctx, types.NewRequestBatchKey, id) == b2i(hasN), queued(ctx, types.ExpiredRequestBatchKey, id) == b2i(hasE)), "no-rate-queues-agree-with-pointers")
		return
	}
	rate := sdk.MustNewDecFromStr(rateTexts[answer])
	dT, dV := RefDiscounts(b.Pricing, s.Now, s.Vol0[0])
	fee := sdk.MaxInt(sdk.NewDecFromInt(b.Pricing.Price.AmountOf(Gold)).Mul(dT).Mul(dV).Mul(rate).TruncateInt(), sdk.OneInt())
	elig := vf.All(b.Available, b.QoS <= uint64(timeout), fee.LTE(capAmt))
	issue := vf.And(elig, vf.Or(pre.SuperMode, s.BalC0.GTE(fee)))
	if issue {
		vf.Reach("issued")
		chk("C06 C12 C16", vf.And(nreq == 1, nact == 1), "exchange-request-issued-to-the-eligible-provider")
		rid := types.GenerateRequestID(id, bc+1, s.H, 0)
		req, ok := k.GetCompactRequest(ctx, rid)
		chk("C06 C18", ok, "exchange-request-recorded")
		vf.Assume(ok)
		if pre.SuperMode {
			chk("C07 C02", req.ServiceFee.Empty(), "exchange-super-no-fee")
			chk("C07 C02 C05 C01", vf.And(balC1.Equal(s.BalC0), esc1.Equal(s.Esc0)), "exchange-super-no-debit")
		} else {
			chk("C02 C01", s.BalC0.Sub(balC1).Equal(req.ServiceFee.AmountOf(Denom)), "exchange-debit-is-the-fee-recorded")
			chk("C01", esc1.Sub(s.Esc0).Equal(req.ServiceFee.AmountOf(Denom)), "exchange-escrow-gains-the-fee-recorded")
			chk("C07 C06", req.ServiceFee.AmountOf(Denom).Equal(fee), "exchange-fee-is-price-times-rate")
			chk("C06", req.ServiceFee.AmountOf(Denom).LTE(capAmt), "exchange-fee-within-cap")
			chk("C02 C07", s.BalC0.Sub(balC1).Equal(fee), "exchange-debit-is-price-times-rate")
		}
		chk("C09 C10", vf.All(post.BatchCounter == bc+1, post.BatchState == types.BATCHRUNNING, post.State == types.RUNNING), "exchange-batch-started")
		chk("C11 C08", expiryAt(k, ctx, id, s.H+timeout), "exchange-expiry-at-issue-plus-timeout")
		chk("C11 C10", !k.HasNewRequestBatch(ctx, id), "exchange-newbatch-entry-consumed")
		return
	}
	chk("C06 C16", vf.And(nreq == 0, nact == 0), "exchange-no-requests")
	chk("C06 C02 C05 C01", vf.And(balC1.Equal(s.BalC0), esc1.Equal(s.Esc0)), "exchange-no-debit")
	if elig {
		vf.Reach("paused-for-funds")
		chk("C06 C09", vf.All(post.State == types.PAUSED, post.BatchCounter == bc), "exchange-paused-for-funds")
	} else {
		vf.Reach("skipped")
		chk("C06 C09 C10", vf.All(post.State == types.RUNNING, post.BatchCounter == bc+1), "exchange-skipped-counts-as-batch")
		chk("C11 C10", expiryAt(k, ctx, id, s.H+timeout), "exchange-skip-expiry-queued")
	}
}

func C07T_ExchangeByTime()   { focus = "C07"; sceneExchangeP(1, 0) }
func C07T_ExchangeByVolume() { focus = "C07"; sceneExchangeP(0, 2) }
func C01T_ExchangeByTime()   { focus = "C01"; sceneExchangeP(1, 0) }
func C06T_ExchangeByVolume() { focus = "C06"; sceneExchangeP(0, 2) }
func C01_Exchange()          { focus = "C01"; sceneExchange() }
func C02_Exchange()          { focus = "C02"; sceneExchange() }
func C06_Exchange()          { focus = "C06"; sceneExchange() }
func C07_Exchange()          { focus = "C07"; sceneExchange() }
func C11_Exchange()          { focus = "C11"; sceneExchange() }
func C20_Exchange()          { focus = "C20"; sceneExchange() }
func C09_Exchange()          { focus = "C09"; sceneExchange() }
func C10_Exchange()          { focus = "C10"; sceneExchange() }
