package h

import (
	sdk "github.com/cosmos/cosmos-sdk/types"

	service "github.com/irismod/service"
	"github.com/irismod/service/types"

	"vh/vf"
)

// sceneModuleCall: a MsgCallService for a service that another module has registered as its own
// (keeper.RegisterModuleService). The handler creates a one-shot context with timeout 1 for the module's
// provider, charges the consumer, issues the request, asks the module for the answer and records it in the
// same transaction. The scene then runs the end of this block and of the next one.
//
// Expected, from the properties: the consumer pays exactly the fee stamped on the request (C02), the escrow
// grows by what is afterwards owed to the provider (C01), nothing is issued to a provider that is not
// eligible (C06), and after the expiry block nothing of the context is left (C16, C11).
func sceneModuleCall() {
	k, ctx := vf.Env()
	ctx, H, now := Block(ctx)
	Define(k, ctx, Svc)
	owner, consumer, modProv := vf.Addr("owner", 20), vf.Addr("consumer", 20), vf.Addr("modprov", 20)
	distinct(owner, consumer, modProv)
	answer := vf.Choice("answer", 4)
	_ = k.RegisterModuleService("modx", &types.ModuleService{ServiceName: Svc, Provider: modProv,
		ReuquestService: func(ctx sdk.Context, input string) (string, string) {
			switch answer {
			case 0:
				return ResultOK, OutputOK
			case 1:
				return ResultErr, ""
			case 2:
				return ResultOK, OutputBad
			}
			return ResultErr, OutputBad // a module is not bound by the stateless checks of MsgRespondService
		}})
	// the module's provider has (or lacks) a binding, created through the keeper at genesis
	bound := vf.Bool("bound")
	var b BindingSpec
	depAcc := vf.Amount("depositRest")
	if bound {
		b = Binding(k, ctx, "b", Svc, modProv, owner, 0, 0, false)
		depAcc = depAcc.Add(b.Deposit)
	}
	vf.SetModuleBalance(types.DepositAccName, depAcc)
	tx := vf.Bytes("txhash", 32)
	mi := vf.Int64("msgIndex")
	ctx = vf.WithTx(ctx, tx, mi)
	capAmt := vf.Amount("cap")
	// the handler replaces providers, timeout, repetition and super mode by its own; what the message carries only has to be valid
	msg := types.NewMsgCallService(Svc, []sdk.AccAddress{modProv}, consumer, InputOK, coins(capAmt), 1, vf.Bool("m.super"), false, 0, 0)
	vf.Assume(msg.ValidateBasic() == nil)
	balC0 := vf.Amount("balConsumer")
	vf.SetBalance(consumer, balC0)
	esc0 := vf.Amount("escrowRest")
	vf.SetModuleBalance(types.RequestAccName, esc0)
	col0 := vf.Amount("collector")
	vf.SetModuleBalance("fee_collector", col0)
	supply0 := vf.Amount("supplyRest").Add(depAcc).Add(balC0).Add(esc0).Add(col0)
	vf.SetSupply(supply0)
	id := types.GenerateRequestContextID(tx, mi)

	_, err, panicked := vf.Deliver(ctx, service.NewHandler(k), msg)
	chk("C20", !panicked, "module-call-no-panic")
	vf.Assume(!panicked)

	eligible := vf.All(bound, b.Available, b.QoS <= 1)
	fee := sdk.ZeroInt()
	if bound {
		fee = RefPrice(b.Pricing, now, 0)
		eligible = vf.And(eligible, fee.LTE(capAmt))
	}
	paid := balC0.Sub(vf.Balance(consumer))
	escD := vf.ModuleBalance(types.RequestAccName).Sub(esc0)
	earnedCoins, _ := k.GetEarnedFees(ctx, modProv)
	earned := earnedCoins.AmountOf(Denom)
	if err != nil {
		vf.Reach("rejected")
		_, found := k.GetRequestContext(ctx, id)
		chk("C02 C05 C01 C09", vf.All(paid.IsZero(), escD.IsZero(), earned.IsZero(), !found), "rejected-module-call-changes-nothing")
		return
	}
	vf.Reach("accepted")
	// the request that was issued and answered in the transaction
	rid := types.GenerateRequestID(id, 1, H, 0)
	req, hasReq := k.GetCompactRequest(ctx, rid)
	chk("C06 C05", eligible, "module-call-served-only-by-an-eligible-binding")
	chk("C12 C16", hasReq, "module-call-request-recorded")
	vf.Assume(vf.And(hasReq, eligible))
	stamped := req.ServiceFee.AmountOf(Denom)
	chk("C07 C06 C02", vf.And(stamped.Equal(fee), stamped.LTE(capAmt)), "module-call-fee-is-the-price-within-the-cap")
	if answer < 2 {
		chk("C02 C05 C07", paid.Equal(stamped), "consumer-pays-the-stamped-fee")
	} else {
		after, _ := k.GetServiceBinding(ctx, Svc, modProv)
		wantDep, _, wantAvail, _ := SlashRef(k, ctx, b, now)
		chk("C04 C03 C14", vf.And(after.Deposit.AmountOf(Denom).Equal(wantDep), after.Available == wantAvail), "malformed-module-answer-slashes-the-provider-once")
	}
	chk("C08 C11", !k.IsRequestActive(ctx, rid), "module-call-request-answered-in-the-transaction")
	tax := sdk.NewDecFromInt(stamped).Mul(vf.Params(ctx).ServiceFeeTax).TruncateInt()
	if answer >= 2 { // malformed output: refund and slash
		chk("C02 C01", vf.All(paid.IsZero(), escD.IsZero(), earned.IsZero()), "malformed-module-answer-refunds-the-fee")
	} else {
		chk("C02", vf.And(earned.Equal(stamped.Sub(tax)), vf.ModuleBalance("fee_collector").Sub(col0).Equal(tax)), "module-provider-earns-fee-minus-tax")
		chk("C01", escD.Equal(earned), "escrow-grows-by-what-is-owed")
	}
	rc, found := k.GetRequestContext(ctx, id)
	chk("C09 C12", vf.All(found, rc.BatchCounter == 1, rc.BatchRequestCount == 1, rc.BatchResponseCount == 1, rc.BatchState == types.BATCHCOMPLETED), "module-call-batch-complete")

	// ---- the end of this block and of the next: nothing more happens, and nothing is left
	bal1, esc1 := vf.Balance(consumer), vf.ModuleBalance(types.RequestAccName)
	p1 := vf.Try(func() { service.EndBlocker(ctx, k) })
	chk("C20", !p1, "endblock-after-module-call-no-panic")
	vf.Assume(!p1)
	n1, _, n3 := countRecords(k, ctx, id, 1)
	_, _, m3 := countRecords(k, ctx, id, 2)
	chk("C10 C09 C06", vf.And(m3 == 0, n3 == 0), "no-second-batch-for-a-module-call")
	chk("C01 C02 C05", vf.And(vf.Balance(consumer).Equal(bal1), vf.ModuleBalance(types.RequestAccName).Equal(esc1)), "endblock-after-module-call-moves-no-money")
	_ = n1
	ctx2 := ctx.WithBlockHeight(H + 1)
	p2 := vf.Try(func() { service.EndBlocker(ctx2, k) })
	chk("C20", !p2, "expiry-endblock-after-module-call-no-panic")
	vf.Assume(!p2)
	if answer < 2 {
		after, _ := k.GetServiceBinding(ctx2, Svc, modProv)
		chk("C04 C03", vf.And(after.Deposit.AmountOf(Denom).Equal(b.Deposit), after.Available == b.Available), "module-provider-not-slashed-for-an-answered-request")
	}
	_, still := k.GetRequestContext(ctx2, id)
	r1, r2, r3 := countRecords(k, ctx2, id, 1)
	chk("C16", vf.All(!still, r1 == 0, r2 == 0, r3 == 0), "module-call-leaves-nothing-behind")
	chk("C11", vf.All(!k.HasNewRequestBatch(ctx2, id), !k.HasRequestBatchExpiration(ctx2, id), queued(ctx2, types.NewRequestBatchKey, id) == 0, queued(ctx2, types.ExpiredRequestBatchKey, id) == 0), "module-call-queues-emptied")
	chk("C01 C02", vf.And(vf.Balance(consumer).Equal(bal1), vf.ModuleBalance(types.RequestAccName).Equal(esc1)), "expiry-after-module-call-moves-no-money")
}
