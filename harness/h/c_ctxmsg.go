package h

var cmQuick = ReqOpts{MaxProv: 1, OnlyState: -1, Module: true}

func C09_Pause()  { focus = "C09"; sceneCtxMsg(opPause, cmQuick) }
func C09_Start()  { focus = "C09"; sceneCtxMsg(opStart, cmQuick) }
func C09_Kill()   { focus = "C09"; sceneCtxMsg(opKill, cmQuick) }
func C09_Update() { focus = "C09"; sceneCtxMsg(opUpdate, cmQuick) }

func C10_Start()  { focus = "C10"; sceneCtxMsg(opStart, cmQuick) }
func C10_Update() { focus = "C10"; sceneCtxMsg(opUpdate, cmQuick) }
func C11_Pause()  { focus = "C11"; sceneCtxMsg(opPause, cmQuick) }
func C11_Start()  { focus = "C11"; sceneCtxMsg(opStart, cmQuick) }
func C11_Kill()   { focus = "C11"; sceneCtxMsg(opKill, cmQuick) }
func C11_Update() { focus = "C11"; sceneCtxMsg(opUpdate, cmQuick) }
