package h

import (
	sdk "github.com/cosmos/cosmos-sdk/types"

	service "github.com/irismod/service"
	"github.com/irismod/service/types"

	"vh/vf"
)

// ---------------------------------------------------------------- whole-state invariants (raw scans)

// pendingFees sums the fees of all requests awaiting a response (scan of the by-id pending index).
func pendingFees(k keeperT, ctx sdk.Context) (sdk.Int, int) {
	total, n := sdk.ZeroInt(), 0
	it := sdk.KVStorePrefixIterator(vf.Store(ctx), types.ActiveRequestByIDKey)
	for ; it.Valid(); it.Next() {
		r, found := k.GetCompactRequest(ctx, it.Key()[1:])
		if found {
			total = total.Add(r.ServiceFee.AmountOf(Denom))
		}
		n++
	}
	it.Close()
	return total, n
}

// stateInv asserts the global invariants on a state with the given providers, owner and context.
func stateInv(k keeperT, ctx sdk.Context, step string, provs []sdk.AccAddress, owner sdk.AccAddress, id []byte, H int64) {
	// ESC: escrow = pending fees + earnings
	pend, nPend := pendingFees(k, ctx)
	earned := sdk.ZeroInt()
	for _, p := range provs {
		e, _ := k.GetEarnedFees(ctx, p)
		earned = earned.Add(e.AmountOf(Denom))
	}
	chk("C01 C02", vf.ModuleBalance(types.RequestAccName).Equal(pend.Add(earned)), step+": escrow-equals-pending-fees-plus-earnings")
	// EARN: owner total = sum of its providers
	oe, _ := k.GetOwnerEarnedFees(ctx, owner)
	chk("C13", oe.AmountOf(Denom).Equal(earned), step+": owner-total-is-sum-of-providers")
	// DEP: deposit account = sum of recorded deposits
	deps := sdk.ZeroInt()
	k.IterateServiceBindings(ctx, func(b types.ServiceBinding) bool {
		deps = deps.Add(b.Deposit.AmountOf(Denom))
		return false
	})
	chk("C03", vf.ModuleBalance(types.DepositAccName).Equal(deps), step+": deposit-account-equals-recorded-deposits")
	// Q and REQ for the context
	rc, found := k.GetRequestContext(ctx, id)
	hasE, hasN := k.HasRequestBatchExpiration(ctx, id), k.HasNewRequestBatch(ctx, id)
	nE, nN := queued(ctx, types.ExpiredRequestBatchKey, id), queued(ctx, types.NewRequestBatchKey, id)
	chk("C11", vf.All(nE == b2i(hasE), nN == b2i(hasN)), step+": queue-entries-match-pointers")
	if found {
		chk("C11", vf.Implies(rc.State == types.RUNNING, hasE != hasN), step+": running-context-has-exactly-one-pending-event")
		nreq, nresp, nact := countRecords(k, ctx, id, rc.BatchCounter)
		chk("C16 C12", vf.All(nact == nPend, nresp+nact == nreq || rc.BatchState == types.BATCHCOMPLETED), step+": records-of-current-batch-consistent")
		chk("C12", vf.Implies(rc.BatchState == types.BATCHRUNNING, vf.And(int(rc.BatchRequestCount) == nreq, int(rc.BatchResponseCount) == nresp)), step+": counts-match-records")
		chk("C11 C16", vf.Implies(nPend > 0, hasE), step+": pending-requests-have-a-pending-expiry")
	} else {
		chk("C16 C11", vf.All(!hasE, !hasN, nPend == 0), step+": nothing-left-of-a-removed-context")
	}
}

// sceneSkeleton: a history from an empty module state: define, bind, call, end of block (batch 1),
// one of {good response, malformed response, nothing, pause, kill}, end of the expiry block, withdrawal.
// Every argument is symbolic; the global invariants are asserted after every step.
func sceneSkeleton(nProv int) {
	k, ctx := vf.Env()
	H0 := vf.Int64("H0")
	vf.Assume(vf.And(H0 >= 1, H0 < maxH))
	T0 := vf.Time("T0")
	ctx = ctx.WithBlockHeight(H0).WithBlockTime(T0)
	h := service.NewHandler(k)
	author, owner, prov, consumer := vf.Addr("author", 20), vf.Addr("owner", 20), vf.Addr("prov", 20), vf.Addr("consumer", 20)
	distinct(owner, consumer)
	prov2 := vf.Addr("prov2", 20)
	distinct(prov, prov2)
	balO, balC := vf.Amount("balOwner"), vf.Amount("balConsumer")
	vf.SetBalance(owner, balO)
	vf.SetBalance(consumer, balC)
	vf.SetModuleBalance(types.RequestAccName, sdk.ZeroInt())
	vf.SetModuleBalance(types.DepositAccName, sdk.ZeroInt())
	vf.SetModuleBalance("fee_collector", sdk.ZeroInt())
	vf.SetSupply(vf.Amount("supplyRest").Add(balO).Add(balC))
	provs := []sdk.AccAddress{prov}
	if nProv == 2 {
		provs = []sdk.AccAddress{prov, prov2}
	}

	// 1. define, 2. bind
	_, err, p := vf.Deliver(ctx, h, types.NewMsgDefineService(Svc, "", nil, author, "", Schemas))
	vf.Assume(vf.And(err == nil, !p))
	dep := vf.Amount("deposit")
	vf.Assume(dep.IsPositive())
	bind := types.NewMsgBindService(Svc, prov, coins(dep), vf.PricingText("pricing", 0, 0), vf.Uint64("qos"), "{}", owner)
	vf.Assume(bind.ValidateBasic() == nil)
	_, err, p = vf.Deliver(ctx, h, bind)
	chk("C20", !p, "bind-no-panic")
	vf.Assume(vf.And(err == nil, !p))
	dep2 := sdk.ZeroInt()
	if nProv == 2 {
		dep2 = vf.Amount("deposit2")
		vf.Assume(dep2.IsPositive())
		bind2 := types.NewMsgBindService(Svc, prov2, coins(dep2), vf.PricingText("pricing2", 0, 0), vf.Uint64("qos2"), "{}", owner)
		vf.Assume(bind2.ValidateBasic() == nil)
		_, err, p = vf.Deliver(ctx, h, bind2)
		vf.Assume(vf.And(err == nil, !p))
	}
	id := types.GenerateRequestContextID(vf.Bytes("txhash", 32), 0)
	stateInv(k, ctx, "after-bind", provs, owner, id, H0)
	chk("C03 C05", vf.Balance(owner).Equal(balO.Sub(dep).Sub(dep2)), "owner-debited-the-deposit")

	// 3. call
	timeout := vf.Int64("timeout")
	capAmt := vf.Amount("cap")
	repeated := vf.Bool("repeated")
	freq, total := vf.Uint64("freq"), vf.Int64("total")
	vf.Assume(vf.All(timeout < maxH, freq < uint64(maxH), total < maxH))
	call := types.NewMsgCallService(Svc, provs, consumer, InputOK, coins(capAmt), timeout, vf.Bool("super"), repeated, freq, total)
	vf.Assume(call.ValidateBasic() == nil)
	_, err, p = vf.Deliver(vf.WithTx(ctx, id[:32], 0), h, call)
	chk("C20", !p, "call-no-panic")
	vf.Assume(vf.And(err == nil, !p))
	stateInv(k, ctx, "after-call", provs, owner, id, H0)

	// 4. end of the block of the call: first batch issued, skipped, or context paused for funds
	service.EndBlocker(ctx, k)
	stateInv(k, ctx, "after-first-endblock", provs, owner, id, H0)
	rc1, found := k.GetRequestContext(ctx, id)
	chk("C10 C09", vf.And(found, vf.Or(rc1.BatchCounter == 1, rc1.State == types.PAUSED)), "first-batch-at-the-call-height")
	vf.Assume(found)

	// 5. something happens before the expiry block ends
	H1 := vf.Int64("H1")
	vf.Assume(vf.And(H1 > H0, H1 <= H0+timeout))
	ctx1 := ctx.WithBlockHeight(H1).WithBlockTime(vf.Time("T1"))
	rid := types.GenerateRequestID(id, 1, H0, 0)
	switch vf.Choice("event", 5) {
	case 0:
		_, err, p = vf.Deliver(ctx1, h, types.NewMsgRespondService(rid, prov, ResultOK, OutputOK))
		chk("C08", vf.Implies(k.IsRequestActive(ctx, rid), true), "respond-attempted")
	case 1:
		_, err, p = vf.Deliver(ctx1, h, types.NewMsgRespondService(rid, prov, ResultOK, OutputBad))
	case 2:
	case 3:
		_, err, p = vf.Deliver(ctx1, h, types.NewMsgPauseRequestContext(id, consumer))
	case 4:
		_, err, p = vf.Deliver(ctx1, h, types.NewMsgKillRequestContext(id, consumer))
	}
	chk("C20", !p, "message-no-panic")
	vf.Assume(!p)
	stateInv(k, ctx1, "after-event", provs, owner, id, H1)

	// 6. the expiry block of batch 1 ends (only when a batch was started)
	if rc1.BatchCounter == 1 && rc1.State == types.RUNNING {
		ctx2 := ctx.WithBlockHeight(H0 + timeout).WithBlockTime(vf.Time("T2"))
		service.EndBlocker(ctx2, k)
		stateInv(k, ctx2, "after-expiry", provs, owner, id, H0+timeout)
		n1, n2, n3 := countRecords(k, ctx2, id, 1)
		// with frequency == timeout batch 2 starts in this very block; batch 1 is gone either way
		chk("C16 C08", vf.All(n1 == 0, n2 == 0, n3 == 0, !k.IsRequestActive(ctx2, rid)), "batch-one-left-nothing-behind")
		// 7. the owner withdraws: afterwards only pending fees back the escrow
		_, err, p = vf.Deliver(ctx2, h, types.NewMsgWithdrawEarnedFees(owner, nil))
		chk("C20", !p, "withdraw-no-panic")
		vf.Assume(vf.And(err == nil, !p))
		stateInv(k, ctx2, "after-withdraw", provs, owner, id, H0+timeout)
		e, _ := k.GetEarnedFees(ctx2, prov)
		chk("C13", e.IsZero(), "earnings-withdrawn")
		pend, _ := pendingFees(k, ctx2)
		chk("C01 C13", vf.ModuleBalance(types.RequestAccName).Equal(pend), "escrow-holds-only-pending-fees-after-withdrawal")
		// 8. a repeated context that is still running gets its second batch exactly `frequency` blocks after the first
		rc2, alive := k.GetRequestContext(ctx2, id)
		if alive && rc2.State == types.RUNNING && rc2.BatchCounter == 1 {
			chk("C10 C11", newBatchAt(k, ctx2, id, H0+int64(rc2.RepeatedFrequency)), "second-batch-scheduled-one-frequency-after-the-first")
			ctx3 := ctx.WithBlockHeight(H0 + int64(rc2.RepeatedFrequency)).WithBlockTime(vf.Time("T3"))
			service.EndBlocker(ctx3, k)
			stateInv(k, ctx3, "after-second-batch", provs, owner, id, H0+int64(rc2.RepeatedFrequency))
			rc3, ok3 := k.GetRequestContext(ctx3, id)
			chk("C10 C09", vf.And(ok3, vf.Or(rc3.BatchCounter == 2, rc3.State == types.PAUSED)), "second-batch-started-or-paused-for-funds")
		}
	}
}

// bindingInv: DEP, MIN, D for one binding of a history
func bindingInv(k keeperT, ctx sdk.Context, step string, prov, owner sdk.AccAddress, balOwner0, totalSent sdk.Int) types.ServiceBinding {
	b, found := k.GetServiceBinding(ctx, Svc, prov)
	chk("C15", found, step+": binding-exists")
	vf.Assume(found)
	dep := b.Deposit.AmountOf(Denom)
	chk("C03", vf.ModuleBalance(types.DepositAccName).Equal(dep), step+": deposit-account-equals-recorded-deposit")
	chk("C03 C05", balOwner0.Sub(vf.Balance(owner)).Equal(dep), step+": owner-net-debit-equals-deposit-in-custody")
	price := k.GetPricing(ctx, Svc, prov).Price.AmountOf(Denom)
	chk("C14", vf.Implies(b.Available, dep.GTE(MinDepositRef(k, ctx, price))), step+": available-holds-minimum")
	own, ok := k.GetOwner(ctx, prov)
	chk("C15", vf.All(ok, own.Equals(owner), b.Owner.Equals(owner), b.Provider.Equals(prov), b.ServiceName == Svc), step+": identity-and-owner-stable")
	rp, perr := k.ParsePricing(ctx, b.Pricing)
	chk("C15 C07", vf.And(perr == nil, rp.Price.AmountOf(Denom).Equal(price)), step+": price-terms-match-published-text")
	chk("C15", b.Validate() == nil, step+": stored-binding-valid")
	_ = totalSent
	return b
}

// sceneBindingHistory: bind, update, disable, refund attempt, enable with top-up, disable, refund - from an
// empty state, every argument and every block time symbolic.
func sceneBindingHistory() {
	k, ctx := vf.Env()
	ctx, _, _ = Block(ctx)
	h := service.NewHandler(k)
	author, owner, prov := vf.Addr("author", 20), vf.Addr("owner", 20), vf.Addr("prov", 20)
	balO := vf.Amount("balOwner")
	vf.SetBalance(prov, vf.Amount("balProv")) // the provider has money of its own, which no binding message may touch
	vf.SetBalance(owner, balO)
	vf.SetModuleBalance(types.DepositAccName, sdk.ZeroInt())
	vf.SetSupply(vf.Amount("supplyRest").Add(balO))
	_, err, p := vf.Deliver(ctx, h, types.NewMsgDefineService(Svc, "", nil, author, "", Schemas))
	vf.Assume(vf.And(err == nil, !p))
	d0 := vf.Amount("deposit")
	vf.Assume(d0.IsPositive())
	bind := types.NewMsgBindService(Svc, prov, coins(d0), vf.PricingText("pricing0", 0, 0), vf.Uint64("qos"), "{}", owner)
	vf.Assume(bind.ValidateBasic() == nil)
	_, err, p = vf.Deliver(ctx, h, bind)
	vf.Assume(vf.And(err == nil, !p))
	bindingInv(k, ctx, "after-bind", prov, owner, balO, d0)

	// update: new price and/or top-up
	add := vf.Amount("topup1")
	var dep1 sdk.Coins
	if vf.Bool("hasTopup1") {
		vf.Assume(add.IsPositive())
		dep1 = coins(add)
	}
	text1 := ""
	if vf.Bool("hasPricing1") {
		text1 = vf.PricingText("pricing1", 0, 0)
	}
	upd := types.NewMsgUpdateServiceBinding(Svc, prov, dep1, text1, 0, "{}", owner)
	vf.Assume(upd.ValidateBasic() == nil)
	_, _, p = vf.Deliver(ctx, h, upd)
	chk("C20", !p, "update-no-panic")
	vf.Assume(!p)
	bindingInv(k, ctx, "after-update", prov, owner, balO, d0)

	// disable at T1
	T1 := vf.Time("T1")
	ctx1 := ctx.WithBlockTime(T1)
	_, err, p = vf.Deliver(ctx1, h, types.NewMsgDisableServiceBinding(Svc, prov, owner))
	vf.Assume(vf.And(err == nil, !p))
	b1 := bindingInv(k, ctx1, "after-disable", prov, owner, balO, d0)
	chk("C03", vf.And(!b1.Available, b1.DisabledTime.Equal(T1)), "disable-records-its-block-time")

	// refund attempt at T2 (any time): succeeds iff due
	T2 := vf.Time("T2")
	ctx2 := ctx.WithBlockTime(T2)
	dueAt := T1.Add(vf.Params(ctx).ArbitrationTimeLimit).Add(vf.Params(ctx).ComplaintRetrospect)
	balBefore := vf.Balance(owner)
	_, err, p = vf.Deliver(ctx2, h, types.NewMsgRefundServiceDeposit(Svc, prov, owner))
	chk("C20", !p, "refund-no-panic")
	vf.Assume(!p)
	chk("C03", (err == nil) == vf.And(!T2.Before(dueAt), b1.Deposit.AmountOf(Denom).IsPositive()), "refund-succeeds-exactly-when-due-and-nonzero")
	if err == nil {
		chk("C03", vf.Balance(owner).Sub(balBefore).Equal(b1.Deposit.AmountOf(Denom)), "refund-pays-the-whole-deposit")
	}
	bindingInv(k, ctx2, "after-refund-attempt", prov, owner, balO, d0)

	// enable with a top-up: accepted only if the minimum is met
	add2 := vf.Amount("topup2")
	var dep2 sdk.Coins
	if vf.Bool("hasTopup2") {
		vf.Assume(add2.IsPositive())
		dep2 = coins(add2)
	}
	en := types.NewMsgEnableServiceBinding(Svc, prov, dep2, owner)
	vf.Assume(en.ValidateBasic() == nil)
	_, _, p = vf.Deliver(ctx2, h, en)
	chk("C20", !p, "enable-no-panic")
	vf.Assume(!p)
	bindingInv(k, ctx2, "after-enable", prov, owner, balO, d0)
}
