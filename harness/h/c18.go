package h

import (
	"bytes"

	sdk "github.com/cosmos/cosmos-sdk/types"

	"github.com/irismod/service/types"

	"vh/vf"
)

// C18: request ID codec - fixed length, round trip for all inputs
func C18_ReqIDRoundTrip() {
	ctxID := vf.Bytes("ctx", 40)
	bc := vf.Uint64("bc")
	h := vf.Int64("h")
	idx := vf.Int16("idx")
	id := types.GenerateRequestID(ctxID, bc, h, idx)
	vf.Assert(len(id) == types.RequestIDLen, "reqid-len")
	c2, b2, h2, i2, err := types.SplitRequestID(id)
	vf.Assert(err == nil, "reqid-noerr")
	vf.Assert(bytes.Equal(c2, ctxID), "reqid-ctx")
	vf.Assert(b2 == bc, "reqid-bc")
	vf.Assert(h2 == h, "reqid-h")
	vf.Assert(i2 == idx, "reqid-idx")
}

// C18: request ID injectivity (2-copy query)
func C18_ReqIDInjective() {
	c1, c2 := vf.Bytes("c1", 40), vf.Bytes("c2", 40)
	b1, b2 := vf.Uint64("b1"), vf.Uint64("b2")
	h1, h2 := vf.Int64("h1"), vf.Int64("h2")
	i1, i2 := vf.Int16("i1"), vf.Int16("i2")
	id1 := types.GenerateRequestID(c1, b1, h1, i1)
	id2 := types.GenerateRequestID(c2, b2, h2, i2)
	same := vf.And(vf.And(bytes.Equal(c1, c2), b1 == b2), vf.And(h1 == h2, i1 == i2))
	vf.Assert(vf.Implies(bytes.Equal(id1, id2), same), "reqid-injective")
}

// C18: context ID codec
func C18_CtxIDRoundTrip() {
	tx := vf.Bytes("tx", 32)
	mi := vf.Int64("mi")
	id := types.GenerateRequestContextID(tx, mi)
	vf.Assert(len(id) == types.ContextIDLen, "ctxid-len")
	t2, m2, err := types.SplitRequestContextID(id)
	vf.Assert(err == nil, "ctxid-noerr")
	vf.Assert(bytes.Equal(t2, tx), "ctxid-tx")
	vf.Assert(m2 == mi, "ctxid-mi")
	tx2 := vf.Bytes("tx2", 32)
	mi2 := vf.Int64("mi2")
	id2 := types.GenerateRequestContextID(tx2, mi2)
	vf.Assert(vf.Implies(bytes.Equal(id, id2), vf.And(bytes.Equal(tx, tx2), mi == mi2)), "ctxid-injective")
}

// C18/C13: earned-fees prefix scan exactness over address lengths n, m
func C18_EarnedPrefix() {
	n := 1 + vf.Choice("n", 3)
	m := 1 + vf.Choice("m", 3)
	p1 := sdk.AccAddress(vf.Bytes("p1", n))
	p2 := sdk.AccAddress(vf.Bytes("p2", m))
	key := types.GetEarnedFeesKey(p2, "stake")
	sub := types.GetEarnedFeesSubspace(p1)
	// a scan for p1 must return p2's record only if p2 == p1
	properPrefix := vf.Or(len(p1) < len(p2) && bytes.HasPrefix(p2, p1), len(p2) < len(p1) && bytes.HasPrefix(p1, p2))
	vf.AssertKF(vf.Implies(bytes.HasPrefix(key, sub), bytes.Equal(p1, p2)), "earned-scan-exact", "F6", properPrefix)
}
