package h

import (
	"bytes"

	sdk "github.com/cosmos/cosmos-sdk/types"

	"github.com/irismod/service/types"

	"vh/vf"
)

// C18: request ID codec - fixed length, round trip for all inputs
func C18_ReqIDRoundTrip() {
	ctxID := vf.Bytes("ctx", 40)
	bc := vf.Uint64("bc")
	h := vf.Int64("h")
	idx := vf.Int16("idx")
	id := types.GenerateRequestID(ctxID, bc, h, idx)
	vf.Assert(len(id) == types.RequestIDLen, "reqid-len")
	c2, b2, h2, i2, err := types.SplitRequestID(id)
	vf.Assert(err == nil, "reqid-noerr")
	vf.Assert(bytes.Equal(c2, ctxID), "reqid-ctx")
	vf.Assert(b2 == bc, "reqid-bc")
	vf.Assert(h2 == h, "reqid-h")
	vf.Assert(i2 == idx, "reqid-idx")
}

// C18: request ID injectivity (2-copy query)
func C18_ReqIDInjective() {
	c1, c2 := vf.Bytes("c1", 40), vf.Bytes("c2", 40)
	b1, b2 := vf.Uint64("b1"), vf.Uint64("b2")
	h1, h2 := vf.Int64("h1"), vf.Int64("h2")
	i1, i2 := vf.Int16("i1"), vf.Int16("i2")
	id1 := types.GenerateRequestID(c1, b1, h1, i1)
	id2 := types.GenerateRequestID(c2, b2, h2, i2)
	same := vf.And(vf.And(bytes.Equal(c1, c2), b1 == b2), vf.And(h1 == h2, i1 == i2))
	vf.Assert(vf.Implies(bytes.Equal(id1, id2), same), "reqid-injective")
}

// C18: context ID codec
func C18_CtxIDRoundTrip() {
	tx := vf.Bytes("tx", 32)
	mi := vf.Int64("mi")
	id := types.GenerateRequestContextID(tx, mi)
	vf.Assert(len(id) == types.ContextIDLen, "ctxid-len")
	t2, m2, err := types.SplitRequestContextID(id)
	vf.Assert(err == nil, "ctxid-noerr")
	vf.Assert(bytes.Equal(t2, tx), "ctxid-tx")
	vf.Assert(m2 == mi, "ctxid-mi")
	tx2 := vf.Bytes("tx2", 32)
	mi2 := vf.Int64("mi2")
	id2 := types.GenerateRequestContextID(tx2, mi2)
	vf.Assert(vf.Implies(bytes.Equal(id, id2), vf.And(bytes.Equal(tx, tx2), mi == mi2)), "ctxid-injective")
}

// C18/C13: the earnings scans over provider addresses of lengths n, m (1..3 bytes; one may begin with the other).
// Records are keyed provider||denom and found by the prefix "provider", so the raw prefix also matches the records
// of a longer address that begins with this one; what the module's scans (GetEarnedFees, DeleteEarnedFees) return
// and delete must nevertheless be exactly the records of their subject.
func C18_EarnedScan() {
	k, ctx := vf.Env()
	n := 1 + vf.Choice("n", 3)
	m := 1 + vf.Choice("m", 3)
	p1 := sdk.AccAddress(vf.Bytes("p1", n))
	p2 := sdk.AccAddress(vf.Bytes("p2", m))
	vf.Assume(!bytes.Equal(p1, p2))
	a1, a2 := vf.Amount("a1"), vf.Amount("a2")
	vf.Assume(vf.And(a1.IsPositive(), a2.IsPositive()))
	k.SetEarnedFees(ctx, p1, coins(a1))
	k.SetEarnedFees(ctx, p2, coins(a2))
	f1, _ := k.GetEarnedFees(ctx, p1)
	f2, _ := k.GetEarnedFees(ctx, p2)
	vf.Assert(vf.And(f1.AmountOf(Denom).Equal(a1), f2.AmountOf(Denom).Equal(a2)), "earned-scan-exact")
	k.DeleteEarnedFees(ctx, p1)
	g1, _ := k.GetEarnedFees(ctx, p1)
	g2, _ := k.GetEarnedFees(ctx, p2)
	vf.Assert(vf.And(g1.Empty(), g2.AmountOf(Denom).Equal(a2)), "earned-delete-exact")
}

// name draws a valid service name of the given length (the real ValidateServiceName is assumed)
func name(tag string, n int) string {
	s := string(vf.Bytes(tag, n))
	vf.Assume(types.ValidateServiceName(s) == nil)
	return s
}

// C18: key builders are injective and every prefix scan is exact, over service names of lengths
// 1..2 (incl. names that are prefixes of each other) and 20-byte addresses.
func C18_Keys() {
	fam := vf.Choice("family", 10)
	l1, l2 := 1+vf.Choice("len1", 2), 1+vf.Choice("len2", 2)
	n1, n2 := name("n1", l1), name("n2", l2)
	// provider addresses: 20 bytes, or one of them longer (stateless validation admits any length); the
	// provider-keyed families below must stay exact then, too
	p1, p2 := sdk.AccAddress(vf.Bytes("p1", 20)), sdk.AccAddress(vf.Bytes("p2", 20+2*vf.Choice("p2extra", 2)))
	o1, o2 := sdk.AccAddress(vf.Bytes("o1", 20)), sdk.AccAddress(vf.Bytes("o2", 20))
	id1, id2 := vf.Bytes("id1", 40), vf.Bytes("id2", 40)
	h1, h2 := vf.Int64("h1"), vf.Int64("h2")
	b1, b2 := vf.Uint64("b1"), vf.Uint64("b2")
	i1, i2 := vf.Int16("i1"), vf.Int16("i2")
	r1 := types.GenerateRequestID(id1, b1, h1, i1)
	r2 := types.GenerateRequestID(id2, b2, h2, i2)
	sameN, sameP, sameO, sameID := n1 == n2, p1.Equals(p2), o1.Equals(o2), bytes.Equal(id1, id2)
	switch fam {
	case 0: // bindings and pricing: key injective, by-service scan exact
		vf.Assert(vf.Implies(bytes.Equal(types.GetServiceBindingKey(n1, p1), types.GetServiceBindingKey(n2, p2)), vf.And(sameN, sameP)), "binding-key-injective")
		vf.Assert(vf.Implies(bytes.HasPrefix(types.GetServiceBindingKey(n2, p2), types.GetBindingsSubspace(n1)), sameN), "bindings-of-service-scan-exact")
		vf.Assert(vf.Implies(bytes.Equal(types.GetPricingKey(n1, p1), types.GetPricingKey(n2, p2)), vf.And(sameN, sameP)), "pricing-key-injective")
		vf.Assert(vf.Implies(bytes.Equal(types.GetServiceDefinitionKey(n1), types.GetServiceDefinitionKey(n2)), sameN), "definition-key-injective")
	case 1: // owner index
		vf.Assert(vf.Implies(bytes.Equal(types.GetOwnerServiceBindingKey(o1, n1, p1), types.GetOwnerServiceBindingKey(o2, n2, p2)), vf.All(sameO, sameN, sameP)), "owner-binding-key-injective")
		vf.Assert(vf.Implies(bytes.HasPrefix(types.GetOwnerServiceBindingKey(o2, n2, p2), types.GetOwnerBindingsSubspace(o1, n1)), vf.And(sameO, sameN)), "bindings-of-owner-scan-exact")
		vf.Assert(vf.Implies(bytes.HasPrefix(types.GetOwnerProviderKey(o2, p2), types.GetOwnerProvidersSubspace(o1)), sameO), "providers-of-owner-scan-exact")
		vf.Assert(vf.Implies(bytes.Equal(types.GetOwnerKey(p1), types.GetOwnerKey(p2)), sameP), "owner-key-injective")
		vf.Assert(vf.Implies(bytes.Equal(types.GetWithdrawAddrKey(o1), types.GetWithdrawAddrKey(o2)), sameO), "withdraw-key-injective")
	case 2: // queues
		vf.Assert(vf.Implies(bytes.HasPrefix(types.GetExpiredRequestBatchKey(id2, h2), types.GetExpiredRequestBatchSubspace(h1)), h1 == h2), "expiry-queue-scan-exact")
		vf.Assert(vf.Implies(bytes.HasPrefix(types.GetNewRequestBatchKey(id2, h2), types.GetNewRequestBatchSubspace(h1)), h1 == h2), "new-batch-queue-scan-exact")
		vf.Assert(vf.Implies(bytes.Equal(types.GetExpiredRequestBatchKey(id1, h1), types.GetExpiredRequestBatchKey(id2, h2)), vf.And(sameID, h1 == h2)), "expiry-queue-key-injective")
		vf.Assert(vf.Implies(bytes.Equal(types.GetNewRequestBatchKey(id1, h1), types.GetNewRequestBatchKey(id2, h2)), vf.And(sameID, h1 == h2)), "new-batch-queue-key-injective")
		vf.Assert(vf.Implies(bytes.Equal(types.GetExpiredRequestBatchHeightKey(id1), types.GetExpiredRequestBatchHeightKey(id2)), sameID), "expiry-pointer-key-injective")
		vf.Assert(vf.Implies(bytes.Equal(types.GetRequestContextKey(id1), types.GetRequestContextKey(id2)), sameID), "context-key-injective")
	case 3: // per-batch scans of requests, responses, pending markers
		sameBatch := vf.And(sameID, b1 == b2)
		vf.Assert(vf.Implies(bytes.HasPrefix(types.GetRequestKey(r2), types.GetRequestSubspaceByReqCtx(id1, b1)), sameBatch), "requests-of-batch-scan-exact")
		vf.Assert(vf.Implies(bytes.HasPrefix(types.GetResponseKey(r2), types.GetResponseSubspaceByReqCtx(id1, b1)), sameBatch), "responses-of-batch-scan-exact")
		vf.Assert(vf.Implies(bytes.HasPrefix(types.GetActiveRequestKeyByID(r2), types.GetActiveRequestSubspaceByReqCtx(id1, b1)), sameBatch), "pending-of-batch-scan-exact")
		vf.Assert(vf.Implies(bytes.Equal(types.GetRequestKey(r1), types.GetRequestKey(r2)), vf.All(sameBatch, h1 == h2, i1 == i2)), "request-key-injective")
	case 4: // pending requests of a binding
		vf.Assert(vf.Implies(bytes.HasPrefix(types.GetActiveRequestKey(n2, p2, h2, r2), types.GetActiveRequestSubspace(n1, p1)), vf.And(sameN, sameP)), "pending-of-binding-scan-exact")
		vf.Assert(vf.Implies(bytes.Equal(types.GetActiveRequestKey(n1, p1, h1, r1), types.GetActiveRequestKey(n2, p2, h2, r2)), vf.All(sameN, sameP, h1 == h2, bytes.Equal(r1, r2))), "pending-key-injective")
		// a query may name the zero-length address: its scan finds nothing of any real provider
		none := sdk.AccAddress{}
		vf.Assert(!bytes.HasPrefix(types.GetActiveRequestKey(n2, p2, h2, r2), types.GetActiveRequestSubspace(n1, none)), "pending-of-the-empty-address-scan-finds-no-real-provider")
	case 5: // volumes
		c1, c2 := sdk.AccAddress(vf.Bytes("c1", 20)), sdk.AccAddress(vf.Bytes("c2", 20))
		vf.Assert(vf.Implies(bytes.Equal(types.GetRequestVolumeKey(c1, n1, p1), types.GetRequestVolumeKey(c2, n2, p2)), vf.All(c1.Equals(c2), sameN, sameP)), "volume-key-injective")
	case 6: // earnings keys, equal address lengths (different lengths: the keeper filters its scans, see C18_EarnedScan)
		q2 := sdk.AccAddress(p2[:20])
		vf.Assert(vf.Implies(bytes.HasPrefix(types.GetEarnedFeesKey(q2, Denom), types.GetEarnedFeesSubspace(p1)), p1.Equals(q2)), "earnings-scan-exact-equal-lengths")
		vf.Assert(vf.Implies(bytes.HasPrefix(types.GetOwnerEarnedFeesKey(o2, Denom), types.GetOwnerEarnedFeesSubspace(o1)), sameO), "owner-earnings-scan-exact")
	case 7: // parsing a by-owner index key back into service and provider (GetOwnerServiceBindings)
		key := types.GetOwnerServiceBindingKey(o1, n1, p1)
		rest := key[sdk.AddrLen+1:]
		sep := bytes.Index(rest, types.EmptyByte)
		vf.Assert(sep == len(n1), "owner-index-key-separator-found")
		if sep == len(n1) {
			vf.Assert(vf.And(string(rest[:sep]) == n1, sdk.AccAddress(rest[sep+1:]).Equals(p1)), "owner-index-key-parses-back")
		}
	case 8: // ids embedded in request ids
		c, bc, hh, ix, err := types.SplitRequestID(r1)
		vf.Assert(vf.All(err == nil, bytes.Equal(c, id1), bc == b1, hh == h1, ix == i1), "request-id-records-context-batch-height-index")
	case 9: // different record families never share a key (first byte)
		vf.Assert(vf.All(
			types.GetServiceBindingKey(n1, p1)[0] != types.GetPricingKey(n1, p1)[0],
			types.GetRequestKey(r1)[0] != types.GetResponseKey(r1)[0],
			types.GetRequestKey(r1)[0] != types.GetActiveRequestKeyByID(r1)[0],
			types.GetExpiredRequestBatchKey(id1, h1)[0] != types.GetNewRequestBatchKey(id1, h1)[0],
			types.GetExpiredRequestBatchHeightKey(id1)[0] != types.GetNewRequestBatchHeightKey(id1)[0],
			types.GetEarnedFeesKey(p1, Denom)[0] != types.GetOwnerEarnedFeesKey(p1, Denom)[0],
			types.GetOwnerKey(p1)[0] != types.GetOwnerProviderKey(p1, p2)[0],
			types.GetRequestContextKey(id1)[0] != types.GetExpiredRequestBatchKey(id1, h1)[0]), "families-have-distinct-prefix-bytes")
	}
}

// C18: one key of each of the 19 record families, built by its own builder: no two families share their first
// byte (so no key of one family can coincide with, or be scanned under a prefix of, a key of another), and each
// sub-space prefix carries the first byte of the family it scans.
func C18_Families() {
	n := name("n", 1+vf.Choice("len", 2))
	p, o := sdk.AccAddress(vf.Bytes("p", 20)), sdk.AccAddress(vf.Bytes("o", 20))
	id := vf.Bytes("id", 40)
	h, b := vf.Int64("h"), vf.Uint64("b")
	r := types.GenerateRequestID(id, b, h, vf.Int16("i"))
	keys := [][]byte{
		types.GetServiceDefinitionKey(n), types.GetServiceBindingKey(n, p), types.GetOwnerServiceBindingKey(o, n, p),
		types.GetOwnerKey(p), types.GetOwnerProviderKey(o, p), types.GetPricingKey(n, p), types.GetWithdrawAddrKey(o),
		types.GetRequestContextKey(id), types.GetExpiredRequestBatchKey(id, h), types.GetNewRequestBatchKey(id, h),
		types.GetExpiredRequestBatchHeightKey(id), types.GetNewRequestBatchHeightKey(id), types.GetRequestKey(r),
		types.GetActiveRequestKey(n, p, h, r), types.GetActiveRequestKeyByID(r), types.GetResponseKey(r),
		types.GetRequestVolumeKey(o, n, p), types.GetEarnedFeesKey(p, Denom), types.GetOwnerEarnedFeesKey(o, Denom),
	}
	ok := true
	for i := range keys {
		for j := 0; j < i; j++ {
			ok = vf.And(ok, keys[i][0] != keys[j][0])
		}
	}
	vf.Assert(ok, "all-19-families-have-distinct-first-bytes")
	subs := [][2][]byte{
		{types.GetBindingsSubspace(n), keys[1]}, {types.GetOwnerBindingsSubspace(o, n), keys[2]}, {types.GetOwnerProvidersSubspace(o), keys[4]},
		{types.GetExpiredRequestBatchSubspace(h), keys[8]}, {types.GetNewRequestBatchSubspace(h), keys[9]},
		{types.GetRequestSubspaceByReqCtx(id, b), keys[12]}, {types.GetActiveRequestSubspace(n, p), keys[13]},
		{types.GetActiveRequestSubspaceByReqCtx(id, b), keys[14]}, {types.GetResponseSubspaceByReqCtx(id, b), keys[15]},
		{types.GetEarnedFeesSubspace(p), keys[17]}, {types.GetOwnerEarnedFeesSubspace(o), keys[18]},
	}
	ok = true
	for _, s := range subs {
		ok = vf.And(ok, bytes.HasPrefix(s[1], s[0]))
	}
	vf.Assert(ok, "each-subspace-prefix-scans-its-own-family-and-subject")
}
