// Package vf is the harness library ("nondet" inputs, assumptions, assertions,
// environment). In symbolic mode every function here is intercepted by the
// engine (symgo) by name; the bodies below are the native side used for
// replay: values come from the counterexample / witness file and the
// environment is the real simapp keeper, store, codec and bank.
package vf

import (
	"context"
	"encoding/json"
	"fmt"
	"math/big"
	"os"
	"strconv"
	"strings"
	"time"

	tmproto "github.com/tendermint/tendermint/proto/tendermint/types"

	"github.com/cosmos/cosmos-sdk/codec"
	sdk "github.com/cosmos/cosmos-sdk/types"
	authtypes "github.com/cosmos/cosmos-sdk/x/auth/types"
	banktypes "github.com/cosmos/cosmos-sdk/x/bank/types"

	simapp "github.com/irismod/service/app"
	"github.com/irismod/service/keeper"
	"github.com/irismod/service/types"
)

type Replay struct {
	Harness string            `json:"harness"`
	Clause  string            `json:"clause"`
	Finding string            `json:"finding"`
	Inputs  map[string]string `json:"inputs"`
	Choices map[string]int    `json:"choices"`
}

var (
	R       Replay
	Failed  []string // clauses whose assertion failed natively
	Unmet   []string // assumptions not met natively (=> encoding mismatch)
	Reached []string
	App     *simapp.SimApp
	nAssume int
	hit     bool
)

func Load(path string) {
	bz, err := os.ReadFile(path)
	if err != nil {
		panic(err)
	}
	R = Replay{}
	if err := json.Unmarshal(bz, &R); err != nil {
		panic(err)
	}
	Failed, Unmet, Reached, nAssume, hit = nil, nil, nil, 0, false
	App = nil
}

func intOf(name string) *big.Int {
	s, ok := R.Inputs[name]
	if !ok {
		return new(big.Int)
	}
	s = strings.TrimSpace(s)
	switch {
	case strings.HasPrefix(s, "#x"):
		v, _ := new(big.Int).SetString(s[2:], 16)
		return v
	case strings.HasPrefix(s, "#b"):
		v, _ := new(big.Int).SetString(s[2:], 2)
		return v
	}
	neg := strings.Contains(s, "-")
	s = strings.NewReplacer("(", "", ")", "", " ", "", "-", "").Replace(s)
	v, ok := new(big.Int).SetString(s, 10)
	if !ok {
		panic("bad value for " + name + ": " + R.Inputs[name])
	}
	if neg {
		v.Neg(v)
	}
	return v
}

func num(name string) uint64 { return intOf(name).Uint64() }

func Bytes(name string, n int) []byte {
	b := make([]byte, n)
	for i := range b {
		b[i] = byte(num(fmt.Sprintf("%s[%d]", name, i)))
	}
	return b
}

// Addr is an account address of n bytes that is not one of the module accounts.
func Addr(name string, n int) sdk.AccAddress { return sdk.AccAddress(Bytes(name, n)) }

func Uint64(name string) uint64 { return num(name) }
func Int64(name string) int64   { return int64(num(name)) }
func Uint32(name string) uint32 { return uint32(num(name)) }
func Int16(name string) int16   { return int16(num(name)) }
func Byte(name string) byte     { return byte(num(name)) }
func Bool(name string) bool     { return R.Inputs[name] == "true" }

// Choice enumerates shapes: the engine forks on it.
func Choice(name string, n int) int { return R.Choices[name] }

// Amount is an arbitrary non-negative integer.
func Amount(name string) sdk.Int { return sdk.NewIntFromBigInt(intOf(name)) }

// Dec is an arbitrary non-negative decimal (numerator at 10^-18).
func Dec(name string) sdk.Dec { return sdk.NewDecFromBigIntWithPrec(intOf(name), 18) }

const unixToInternal int64 = (1969*365 + 1969/4 - 1969/100 + 1969/400) * 86400

func timeOfNS(ns *big.Int) time.Time {
	sec, nsec := new(big.Int).QuoRem(ns, big.NewInt(1_000_000_000), new(big.Int))
	return time.Unix(sec.Int64()-unixToInternal, nsec.Int64()).UTC()
}

// Time is an arbitrary instant in years 1..9999 (UTC).
func Time(name string) time.Time { return timeOfNS(intOf(name)) }

func discText(name string) string {
	d := intOf(name)
	one := new(big.Int).Exp(big.NewInt(10), big.NewInt(18), nil)
	q, r := new(big.Int).QuoRem(d, one, new(big.Int))
	s := fmt.Sprintf("%018s", r.String())
	s = strings.TrimRight(s, "0")
	if s == "" {
		s = "0"
	}
	return q.String() + "." + s
}

// PricingText is an arbitrary pricing text accepted by the pricing JSON schema with
// nT time promotions and nV volume promotions and an integer base-denom price.
func PricingText(name string, nT, nV int) string { return PricingTextIn(name, "stake", nT, nV) }

// PricingTextDec is PricingText with the price written as a decimal number with 18 fractional digits
// (name.price is its numerator at 10^-18): as long a number as the sender likes.
func PricingTextDec(name string, nT, nV int) string {
	decPrice = true
	return PricingTextIn(name, "stake", nT, nV)
}

var decPrice bool

// PricingTextIn is PricingText with the price in the given denomination.
func PricingTextIn(name, denom string, nT, nV int) string {
	var sb strings.Builder
	if decPrice {
		decPrice = false
		q, r := new(big.Int).QuoRem(intOf(name+".price"), new(big.Int).Exp(big.NewInt(10), big.NewInt(18), nil), new(big.Int))
		fmt.Fprintf(&sb, `{"price":"%s.%018s%s"`, q.String(), r.String(), denom)
	} else {
		fmt.Fprintf(&sb, `{"price":"%s%s"`, intOf(name+".price").String(), denom)
	}
	if nT > 0 {
		sb.WriteString(`,"promotions_by_time":[`)
		for i := 0; i < nT; i++ {
			if i > 0 {
				sb.WriteString(",")
			}
			fmt.Fprintf(&sb, `{"start_time":"%s","end_time":"%s","discount":"%s"}`,
				textTime(Time(fmt.Sprintf("%s.t%d.start", name, i))),
				textTime(Time(fmt.Sprintf("%s.t%d.end", name, i))),
				discText(fmt.Sprintf("%s.t%d.disc", name, i)))
		}
		sb.WriteString("]")
	}
	if nV > 0 {
		sb.WriteString(`,"promotions_by_volume":[`)
		for i := 0; i < nV; i++ {
			if i > 0 {
				sb.WriteString(",")
			}
			fmt.Fprintf(&sb, `{"volume":%d,"discount":"%s"}`, num(fmt.Sprintf("%s.v%d.vol", name, i)), discText(fmt.Sprintf("%s.v%d.disc", name, i)))
		}
		sb.WriteString("]")
	}
	sb.WriteString("}")
	return sb.String()
}

// MaxTimestamp is the last instant a protobuf timestamp can hold.
func MaxTimestamp() time.Time { return time.Date(9999, 12, 31, 23, 59, 59, 999999999, time.UTC) }

// textTime writes an instant as RFC 3339 text. The text's year runs from 0000 to 9999; an instant beyond either
// end (by less than a day) is written with a zone offset of 23:59.
func textTime(t time.Time) string {
	const zone = 23*time.Hour + 59*time.Minute
	switch {
	case t.Year() > 9999:
		return t.Add(-zone).Format("2006-01-02T15:04:05.999999999") + "-23:59"
	case t.Year() < 0:
		return t.Add(zone).Format("2006-01-02T15:04:05.999999999") + "+23:59"
	}
	return t.Format(time.RFC3339Nano)
}

// PricingTextLoose is a pricing text the keeper's parser reads but the pricing JSON schema may refuse:
// discounts range over (0, 2) and volumes may be 0.
func PricingTextLoose(name string, nT, nV int) string { return PricingText(name, nT, nV) }

func And(a, b bool) bool     { return a && b }
func Or(a, b bool) bool      { return a || b }
func Implies(a, b bool) bool { return !a || b }

// All / Any: conjunction / disjunction without short-circuit branches (the engine builds one term)
func All(cs ...bool) bool {
	for _, c := range cs {
		if !c {
			return false
		}
	}
	return true
}
func Any(cs ...bool) bool {
	for _, c := range cs {
		if c {
			return true
		}
	}
	return false
}

func Assume(c bool) {
	nAssume++
	if hit { // past the violated assertion the engine continues under the assertion; natively that point is the end
		return
	}
	if !c {
		Unmet = append(Unmet, strconv.Itoa(nAssume))
	}
}

// StopReplay ends a native replay at the violated assertion (the engine continues under the assertion, a
// state the native run is not in).
type StopReplay struct{}

func Assert(c bool, clause string) {
	if !c {
		Failed = append(Failed, clause)
		if clause == R.Clause {
			hit = true
			panic(StopReplay{}) // the violation being replayed is reproduced: the run ends here
		}
	}
}

// AssertKF is Assert for a clause with a recorded known finding: inRegion characterises the
// inputs / states of the finding, so that any other violation of the clause is still reported.
func AssertKF(c bool, clause string, finding string, inRegion bool) {
	Assert(c, clause)
}
func Reach(label string) { Reached = append(Reached, label) }

// IsSymbolic is false natively.
func IsSymbolic() bool { return false }

// Try runs f and reports whether it panicked.
func Try(f func()) (panicked bool) {
	defer func() {
		if r := recover(); r != nil {
			if _, stop := r.(StopReplay); stop {
				panic(r)
			}
			panicked = true
		}
	}()
	f()
	return false
}

func paramInt(name string, def int64) int64 {
	if _, ok := R.Inputs[name]; ok {
		return Int64(name)
	}
	return def
}

// Env boots the real application; module parameters take the values of the model
// (any legal parameter set), defaults where the model left them unconstrained.
func Env() (keeper.Keeper, sdk.Context) { return env(nil) }

// EnvWith is Env with the service keeper built (by the real constructor) over the token keeper of the host
// application, which the harness supplies: the repository's own application knows a single token.
func EnvWith(tk types.TokenKeeper) (keeper.Keeper, sdk.Context) { return env(tk) }

func env(tk types.TokenKeeper) (keeper.Keeper, sdk.Context) {
	App = simapp.Setup(false)
	if tk != nil {
		App.ServiceKeeper = keeper.NewKeeper(App.AppCodec(), App.GetKey(types.StoreKey), App.AccountKeeper, App.BankKeeper,
			tk, App.GetSubspace(types.ModuleName), authtypes.FeeCollectorName)
	}
	ctx := App.BaseApp.NewContext(false, tmproto.Header{Height: 1})
	p := types.DefaultParams()
	p.MaxRequestTimeout = paramInt("param.MaxRequestTimeout", p.MaxRequestTimeout)
	p.MinDepositMultiple = paramInt("param.MinDepositMultiple", p.MinDepositMultiple)
	p.ComplaintRetrospect = time.Duration(paramInt("param.ComplaintRetrospect", int64(p.ComplaintRetrospect)))
	p.ArbitrationTimeLimit = time.Duration(paramInt("param.ArbitrationTimeLimit", int64(p.ArbitrationTimeLimit)))
	if _, ok := R.Inputs["param.TxSizeLimit"]; ok {
		p.TxSizeLimit = Uint64("param.TxSizeLimit")
	}
	if _, ok := R.Inputs["param.MinDeposit"]; ok {
		p.MinDeposit = sdk.NewCoins(sdk.NewCoin("stake", Amount("param.MinDeposit")))
	}
	if _, ok := R.Inputs["param.ServiceFeeTax"]; ok {
		p.ServiceFeeTax = Dec("param.ServiceFeeTax")
	}
	if _, ok := R.Inputs["param.SlashFraction"]; ok {
		p.SlashFraction = Dec("param.SlashFraction")
	}
	theCtx = ctx
	App.ServiceKeeper.SetParams(ctx, p)
	// the service module accounts exist (created at genesis in a live chain)
	App.AccountKeeper.GetModuleAccount(ctx, types.DepositAccName)
	App.AccountKeeper.GetModuleAccount(ctx, types.RequestAccName)
	App.AccountKeeper.GetModuleAccount(ctx, authtypes.FeeCollectorName)
	if _, ok := R.Inputs["supply"]; ok {
		SetSupply(Amount("supply"))
	}
	theCtx = ctx
	// auto accounts: balances of accounts the harness did not set explicitly are in the model as bal.autoN;
	// natively they start at zero unless the harness sets them.
	return App.ServiceKeeper, ctx
}

var theCtx sdk.Context

// Params reads the module parameters straight from the parameter store (not through the keeper's getters, which
// are code under test).
func Params(ctx sdk.Context) types.Params {
	var p types.Params
	App.GetSubspace(types.ModuleName).GetParamSet(ctx, &p)
	return p
}

// CheckOverflow switches on the model of the SDK's 255-bit range checks (panics "Int overflow") for the
// rest of the path; natively the SDK makes them anyway.
func CheckOverflow() {}

// WithTx attaches the transaction hash and message index the host application provides.
func WithTx(ctx sdk.Context, txHash []byte, msgIndex int64) sdk.Context {
	c := context.WithValue(ctx.Context(), types.TxHash, txHash)
	c = context.WithValue(c, types.MsgIndex, msgIndex)
	return ctx.WithContext(c)
}

// WithTxHashOnly attaches the transaction hash but no message index.
func WithTxHashOnly(ctx sdk.Context, txHash []byte) sdk.Context {
	return ctx.WithContext(context.WithValue(ctx.Context(), types.TxHash, txHash))
}

// ProtoJSONRoundTrip writes a genesis state holding the context with the application's JSON codec and reads it
// back: true if that works and the context's states survive. (The engine cannot execute the reflective codec; it
// returns the harness's model of it, and the harness compares the two.)
func ProtoJSONRoundTrip(rc types.RequestContext, model bool) bool {
	gs := types.GenesisState{Params: types.DefaultParams(), RequestContexts: map[string]*types.RequestContext{"AA": &rc}}
	bz, err := App.AppCodec().MarshalJSON(&gs)
	if err != nil {
		return false
	}
	var back types.GenesisState
	if err := App.AppCodec().UnmarshalJSON(bz, &back); err != nil {
		return false
	}
	got, ok := back.RequestContexts["AA"]
	return ok && got.State == rc.State && got.BatchState == rc.BatchState
}

// Store is the raw module store.
func Store(ctx sdk.Context) sdk.KVStore { return ctx.KVStore(App.GetKey(types.StoreKey)) }

func coinsOf(amt sdk.Int) sdk.Coins {
	if amt.IsZero() {
		return sdk.Coins{}
	}
	return sdk.NewCoins(sdk.NewCoin("stake", amt))
}

func SetBalance(addr sdk.AccAddress, amt sdk.Int) {
	if err := App.BankKeeper.SetBalances(theCtx, addr, coinsOf(amt)); err != nil {
		panic(err)
	}
}
func Balance(addr sdk.AccAddress) sdk.Int {
	return App.BankKeeper.GetBalance(theCtx, addr, "stake").Amount
}
func ModuleAddress(name string) sdk.AccAddress { return authtypes.NewModuleAddress(name) }
func SetModuleBalance(name string, amt sdk.Int) {
	SetBalance(ModuleAddress(name), amt)
}
func ModuleBalance(name string) sdk.Int { return Balance(ModuleAddress(name)) }
func SetSupply(amt sdk.Int) {
	App.BankKeeper.SetSupply(theCtx, banktypes.NewSupply(coinsOf(amt)))
}
func Supply() sdk.Int { return App.BankKeeper.GetSupply(theCtx).GetTotal().AmountOf("stake") }

// Deliver runs a message the way baseapp does: on a branch of the state that is kept
// only if the handler returns without error or panic.
func Deliver(ctx sdk.Context, h sdk.Handler, msg sdk.Msg) (res *sdk.Result, err error, panicked bool) {
	cctx, write := ctx.CacheContext()
	func() {
		defer func() {
			if r := recover(); r != nil {
				if _, stop := r.(StopReplay); stop {
					panic(r)
				}
				if _, stop := r.(StopReplay); stop {
					panic(r)
				}
				panicked = true
			}
		}()
		res, err = h(cctx, msg)
	}()
	if !panicked && err == nil {
		write()
	}
	return res, err, panicked
}

// JSONRequests decodes the payload of a new_batch_request event.
func JSONRequests(s string) []types.CompactRequest {
	var out []types.CompactRequest
	if err := json.Unmarshal([]byte(s), &out); err != nil {
		return nil
	}
	return out
}

// LegacyCdc is the amino codec of the legacy query interface.
func LegacyCdc() *codec.LegacyAmino { return App.LegacyAmino() }

// AminoJSON / FromAminoJSON encode query parameters and decode query results of the legacy interface.
func AminoJSON(v interface{}) []byte { return App.LegacyAmino().MustMarshalJSON(v) }
func FromAminoJSON(bz []byte, ptr interface{}) error {
	return App.LegacyAmino().UnmarshalJSON(bz, ptr)
}

// SameBytes compares two stored values.
func SameBytes(a, b []byte) bool { return string(a) == string(b) }
