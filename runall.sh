#!/bin/bash
# run every property's check (default quick); extra args go to symgo (e.g. -update-baseline -noreplay)
cd "$(dirname "$0")"
tier=${1:-quick}; shift
for i in $(seq -w 1 20); do
  p=C$i
  s=$(date +%s)
  out=$(bin/symgo -verif "$PWD" -prop $p -tier $tier "$@" 2>&1)
  echo "$out" | grep -E "VIOLATION|KNOWN-FINDING|INCONCLUSIVE|COUNTEREXAMPLE" | head -8
  echo "$out" | tail -1
done
