#!/bin/bash
# confirm_seed.sh <dir with patch.diff demo_test.go meta.json> : confirm in a scratch worktree that the change
# compiles, passes the existing suite, and that the demonstration fails with it and passes without it
set -u
d=$(realpath "$1")
export GOFLAGS=-mod=mod GOPROXY=off GOSUMDB=off GOTOOLCHAIN=local
wt=/tmp/wt_confirm_$$
git -C /repo worktree add -q "$wt" HEAD || exit 3
trap 'git -C /repo worktree remove --force "$wt"' EXIT
cd "$wt"
tp=$(python3 -c "import json;print(json.load(open('$d/meta.json'))['test_path'].split()[0])")
run=$(python3 -c "import json;print(json.load(open('$d/meta.json'))['test_run'])" | sed "s#/tmp/wt[0-9]*_C[0-9]*#$wt#g; s#^cd [^&]*&& ##")
git apply "$d/patch.diff" || { echo "RESULT $d patch-does-not-apply"; exit 1; }
go build ./... || { echo "RESULT $d does-not-compile"; exit 1; }
suite=$(go test -vet=off -count=1 ./... 2>&1 | grep -c "^FAIL")
cp "$d/demo_test.go" "$tp"
(cd "$wt" && eval "$run") > /tmp/demo_with_$$.log 2>&1; with=$?
git checkout -q -- . 
(cd "$wt" && eval "$run") > /tmp/demo_without_$$.log 2>&1; without=$?
rm -f "$tp"
echo "RESULT $(basename $d) suite_failures=$suite demo_with_patch_exit=$with demo_without_patch_exit=$without"
rm -f /tmp/demo_with_$$.log /tmp/demo_without_$$.log
