#!/bin/bash
# refrun.sh [ids...] : apply each behaviour-preserving refactoring to /repo and run every quick check; all must exit 0
cd /verif
ids=${@:-$(ls refactors)}
for id in $ids; do
  git -C /repo apply /verif/refactors/$id/patch.diff || { echo "$id: patch does not apply"; continue; }
  bad=""
  for i in $(seq -w 1 20); do
    out=$(timeout 1200 bin/symgo -verif /verif -prop C$i -tier quick -noevidence 2>&1); rc=$?
    if [ $rc -ne 0 ]; then bad="$bad C$i(exit=$rc)"; echo "$out" | grep -E "VIOLATION|INCONCLUSIVE|harness=" | head -4 | sed "s/^/   $id C$i: /"; fi
  done
  git -C /repo checkout -- .
  echo "REFACTOR $id alarms:${bad:- none}"
done
