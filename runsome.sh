#!/bin/bash
cd /verif
tier=$1; shift; props=$1; shift
for p in $props; do
  out=$(timeout 3000 bin/symgo -verif /verif -prop $p -tier $tier "$@" 2>&1)
  echo "$out" | grep -E "VIOLATION|KNOWN-FINDING|INCONCLUSIVE|COUNTEREXAMPLE" | head -8
  echo "$out" | tail -1
done
