#!/bin/bash
# seedrun_ov.sh [ids...] : run the quick check of the property each seeded change targets with the change applied
# as a source overlay (scratch worktree; /repo itself is not touched, no evidence is written). Works from a
# snapshot of /verif (vp run), so it can go on while /verif is edited.
cd "$(dirname "$0")"
export GOFLAGS=-mod=mod GOPROXY=off GOSUMDB=off GOTOOLCHAIN=local
[ -x bin/symgo ] || { mkdir -p bin out evidence; (cd symgo && go build -o ../bin/symgo .) || exit 2; }
ids=${@:-$(ls seeded)}
for id in $ids; do
  prop=${id%%_*}
  wt=/tmp/wtov_${id}_$$
  git -C /repo worktree add -q $wt HEAD || continue
  if ! git -C $wt apply $PWD/seeded/$id/patch.diff; then echo "SEED $id patch does not apply"; git -C /repo worktree remove --force $wt; continue; fi
  ov=""
  for f in $(git -C $wt status --porcelain | awk '{print $2}' | grep '\.go$'); do ov="$ov,/repo/$f=$wt/$f"; done
  ov=${ov#,}
  s=$(date +%s)
  out=$(timeout 1500 bin/symgo -verif "$PWD" -prop $prop -tier quick -noevidence -overlay "$ov" 2>&1)
  rc=$?
  git -C /repo worktree remove --force $wt
  v=$(echo "$out" | grep -c "^VIOLATION")
  echo "SEED $id prop=$prop exit=$rc violations=$v secs=$(( $(date +%s) - s ))"
  echo "$out" | grep -E "^  harness=|INCONCLUSIVE" | head -4
done
